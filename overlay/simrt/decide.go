//go:build go1.21

package simrt

import (
	"hash/fnv"
	"math/rand/v2"
	"sort"
)

// Decider is the decision stream of one run: every nondeterministic choice of the simulator
// is a call Choose(kind, n). It is kept as one sub-stream per decision kind, all derived from
// one seed, so that shrinking one kind does not shift the meaning of another.
type Decider struct {
	Seed   uint64
	replay map[string][]int // non-nil: replay mode
	pos    map[string]int
	rngs   map[string]*rand.Rand
	Trace  map[string][]int // everything drawn, per kind
	Count  int
}

// NewDecider returns a searching decision stream.
func NewDecider(seed uint64) *Decider {
	return &Decider{Seed: seed, pos: map[string]int{}, rngs: map[string]*rand.Rand{}, Trace: map[string][]int{}}
}

// NewReplay returns a decision stream that replays recorded values (value mod n; 0 past the end).
func NewReplay(seed uint64, rec map[string][]int) *Decider {
	d := NewDecider(seed)
	d.replay = map[string][]int{}
	for k, v := range rec {
		d.replay[k] = v
	}
	return d
}

func (d *Decider) rng(kind string) *rand.Rand {
	r := d.rngs[kind]
	if r == nil {
		h := fnv.New64a()
		h.Write([]byte(kind))
		r = rand.New(rand.NewPCG(d.Seed, h.Sum64()))
		d.rngs[kind] = r
	}
	return r
}

func (d *Decider) next(kind string, n int, gen func(r *rand.Rand) int) int {
	if n <= 1 {
		return 0
	}
	d.Count++
	var v int
	if d.replay != nil {
		p := d.pos[kind]
		d.pos[kind] = p + 1
		if rec := d.replay[kind]; p < len(rec) {
			v = rec[p] % n
			if v < 0 {
				v = -v
			}
		}
	} else {
		v = gen(d.rng(kind))
	}
	d.Trace[kind] = append(d.Trace[kind], v)
	return v
}

// Choose returns a value in [0,n). 0 is always the boring choice.
func (d *Decider) Choose(kind string, n int) int {
	return d.next(kind, n, func(r *rand.Rand) int { return r.IntN(n) })
}

// ChooseBiased returns 0 with probability zeroPermille/1000 and a uniform value otherwise.
func (d *Decider) ChooseBiased(kind string, n int, zeroPermille int) int {
	return d.next(kind, n, func(r *rand.Rand) int {
		if zeroPermille > 0 && r.IntN(1000) < zeroPermille {
			return 0
		}
		return r.IntN(n)
	})
}

// Chance is true with probability permille/1000; the recorded value 0 always means "no".
func (d *Decider) Chance(kind string, permille int) bool {
	if permille <= 0 {
		return false
	}
	v := d.next(kind, 1000, func(r *rand.Rand) int {
		if r.IntN(1000) < permille {
			return 1 + r.IntN(999)
		}
		return 0
	})
	return v != 0
}

// Range returns a value in [lo,hi].
func (d *Decider) Range(kind string, lo, hi int) int {
	if hi <= lo {
		return lo
	}
	return lo + d.Choose(kind, hi-lo+1)
}

// Kinds returns the decision kinds used, sorted.
func (d *Decider) Kinds() []string {
	var ks []string
	for k := range d.Trace {
		ks = append(ks, k)
	}
	sort.Strings(ks)
	return ks
}

// Decide draws from the current simulation's decision stream.
func Decide(kind string, n int) int {
	s := cur()
	if s == nil {
		return 0
	}
	return s.Dec.Choose(kind, n)
}
