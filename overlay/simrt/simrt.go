//go:build go1.21

// Package simrt is the deterministic-simulation runtime that instrumented copies of the
// knx-go sources are compiled against (see /verif/DESIGN.md §2). It owns the scheduler,
// the simulated clock and timers, the lock models and the decision stream.
//
// When no simulation is active every entry point delegates to the real time/sync/math-rand
// implementation, so an instrumented build behaves exactly like the shipped one.
package simrt

import (
	"container/heap"
	"fmt"
	"runtime"
	"runtime/debug"
	"sort"
	"strings"
	"sync"
	"sync/atomic"
	"testing/synctest"
	"time"
)

// ---------------------------------------------------------------------------------------
// Simulation object

type taskState int32

const (
	tsNew     taskState = iota // goroutine created, not yet parked
	tsParked                   // parked in simrt, waiting for the driver
	tsRunning                  // holds the baton, or woken from a channel op and on its way to Post
	tsDone                     // function returned or panicked
)

// Task is one goroutine known to the simulator.
type Task struct {
	ID        int
	Name      string
	SpawnSite string
	Lib       bool // spawned by instrumented library code (simrt.Go) rather than by the harness
	Parent    int

	state   taskState
	site    string        // last scheduling point
	wake    chan struct{} // capacity 1: the driver's release token
	blocked interface{}   // non-nil: parked but not enabled (waiting for lock/timer/socket/predicate)
	pred    func() bool   // optional: enabled only when pred() is true
	inOp    bool          // released from Pre and not yet back at Post
	goid    int64
	spins   int

	PanicVal   string
	PanicStack string

	prio int // PCT priority
}

// Panic describes a panic that escaped a task.
type Panic struct {
	Task  int
	Name  string
	Lib   bool
	Site  string
	Val   string
	Stack string
}

// Config of one simulated run.
type Config struct {
	MaxSteps  int // 0 = default
	Trace     bool
	Paranoid  bool
	SpinLimit int // same-instant steps before the clock is forced forward (0 = default)
	// StickyPermille is the probability (in 1/1000) with which the scheduler keeps running the
	// task that ran last when it is still enabled (run-to-block bias). 0 = uniform random walk.
	StickyPermille int
	// EventFirstPermille: probability with which a due event is preferred over runnable tasks.
	LatePermille int           // probability that a due timer is postponed once
	LateMax      time.Duration // maximum postponement
	// StarvePermille is the probability with which a freshly started library goroutine is held
	// back (not scheduled) for up to StarveMax of simulated time: the "slow or stalled node"
	// fault at the granularity of one goroutine (loaded machine, GC pause).
	StarvePermille int
	StarveMax      time.Duration
	// StallPermille is the probability with which a library goroutine arriving at a scheduling
	// point (before a channel operation or select, after an unlock, before a socket write) is
	// held there for up to StallMax of simulated time: preemption at an arbitrary point for a
	// long time (the same "stalled node" fault as StarvePermille, but anywhere).
	StallPermille int
	StallMax      time.Duration
	// PCTDepth > 0 switches the scheduler to probabilistic concurrency testing: every task gets
	// a random priority when it is spawned, the enabled task with the highest priority runs, and
	// at PCTDepth randomly chosen steps the running task is demoted below all others. Good at
	// ordering bugs that need one task to be starved while others make progress.
	PCTDepth int
}

// Sim is one simulated execution.
type Sim struct {
	mu  sync.Mutex
	cfg Config
	Dec *Decider

	now   time.Duration
	seq   uint64
	steps int

	tasks    []*Task
	current  *Task
	last     *Task
	events   eventHeap
	evseq    uint64
	timerSeq uint64

	pctPoints map[int]bool
	pctLow    int

	abort    chan struct{}
	aborting atomic.Bool
	finished bool // root task returned
	stopReq  bool

	hash         uint64
	schedHash    uint64
	exits        int
	compacted    int     // value of exits at the last compaction of live
	live         []*Task // tasks that have not ended, by id (compacted now and then)
	states       map[uint64]struct{}
	trace        []string
	Panics       []Panic
	Stats        Stats
	Outcome      string // "finished", "stalled", "step-budget"
	BlockedAtEnd string // where the unfinished tasks were when a run ended without finishing

	lateTotal   time.Duration // sum of injected timer lateness
	slacks      []slackRec    // every injected delay: when it began and how long it lasted
	forcedJump  time.Duration // sum of spin-guard clock jumps
	sameInstant int

	onLock    func(LockEvent)
	OnQuiesce func() // called by the driver at every quiescent point (cheap online invariants)

	Ext map[string]interface{} // other simulated subsystems (network)

	// StepFactor multiplies every step budget a scenario sets (used to tell a run that merely
	// needs more steps from one that makes no progress).
	StepFactor int
}

// Stats are reach counters of one run.
type Stats struct {
	Steps        int
	Decisions    int // decisions with at least two alternatives
	MaxEnabled   int
	MultiEnabled int // steps at which at least two things were enabled
	SelectMulti  int // selects that found >= 2 ready cases possible (polled with several ready)
	TimerTies    int // steps at which >= 2 events were due at the same instant
	TimerLate    int
	Starved      int
	Stalled      int
	ClockJumps   int
	TasksSpawned int
	LibTasks     int
	TimeAdvances int
	Probes       map[string]int
}

var curSim atomic.Pointer[Sim]

func cur() *Sim { return curSim.Load() }

// Active reports whether a controlled simulation is running.
func Active() bool { return cur() != nil }

// Current returns the running simulation or nil.
func Current() *Sim { return cur() }

// New creates a simulation. It becomes the process-wide current simulation until Close.
func New(cfg Config, dec *Decider) *Sim {
	if cfg.MaxSteps <= 0 {
		cfg.MaxSteps = 20000
	}
	if cfg.SpinLimit <= 0 {
		cfg.SpinLimit = 3000
	}
	s := &Sim{cfg: cfg, Dec: dec, abort: make(chan struct{}), hash: 14695981039346656037, schedHash: 14695981039346656037,
		states: map[uint64]struct{}{}, Ext: map[string]interface{}{}}
	s.Stats.Probes = map[string]int{}
	if !curSim.CompareAndSwap(nil, s) {
		panic("simrt: a simulation is already active in this process")
	}
	return s
}

// SetConfig lets the scenario adjust the run configuration from inside the run (the swarm
// configuration is drawn from the decision stream by the root task).
func (s *Sim) SetConfig(f func(c *Config)) {
	s.mu.Lock()
	f(&s.cfg)
	if s.StepFactor > 1 {
		s.cfg.MaxSteps *= s.StepFactor
	}
	if s.cfg.MaxSteps <= 0 {
		s.cfg.MaxSteps = 20000
	}
	s.mu.Unlock()
}

// Close detaches the simulation from the process.
func (s *Sim) Close() { curSim.CompareAndSwap(s, nil) }

// Now returns the simulated time.
func (s *Sim) Now() time.Duration { s.mu.Lock(); defer s.mu.Unlock(); return s.now }

// Seq returns the next global event sequence number (strictly increasing stamp for histories).
func (s *Sim) Seq() uint64 { s.mu.Lock(); defer s.mu.Unlock(); s.seq++; return s.seq }

// Stamp returns (simulated time, fresh sequence number).
func (s *Sim) Stamp() (time.Duration, uint64) {
	s.mu.Lock()
	defer s.mu.Unlock()
	s.seq++
	return s.now, s.seq
}

// AddSlack accounts for a delay that another part of the simulator injected (a write that
// stalled inside the call): oracles add the total to their time bounds.
func (s *Sim) AddSlack(d time.Duration) {
	s.mu.Lock()
	s.lateTotal += d
	s.slacks = append(s.slacks, slackRec{s.now, d})
	s.mu.Unlock()
}

// LateTotal is the simulator-injected slack (timer lateness + spin-guard jumps) so far.
func (s *Sim) LateTotal() time.Duration {
	s.mu.Lock()
	defer s.mu.Unlock()
	// (spin-guard jumps move the clock to the next event's due time: nothing fires late because
	// of them, so they are not slack)
	return s.lateTotal
}

type slackRec struct{ at, d time.Duration }

// SlackBetween is the sum of the injected delays that were in force at some instant of [t0, t1],
// the window being extended by that very sum until it no longer grows: no chain of library actions
// that begins at t0 and needs t1-t0 of undisturbed time can end later than t1 + SlackBetween(t0, t1),
// because every delay that holds it up is in force inside the extended window.
func (s *Sim) SlackBetween(t0, t1 time.Duration) time.Duration {
	s.mu.Lock()
	defer s.mu.Unlock()
	var sum time.Duration
	for {
		var n time.Duration
		for _, r := range s.slacks {
			if r.at <= t1+sum && r.at+r.d >= t0 {
				n += r.d
			}
		}
		if n == sum {
			return sum
		}
		sum = n
	}
}

// Probe counts a reach probe.
func (s *Sim) Probe(name string) {
	s.mu.Lock()
	s.Stats.Probes[name]++
	s.mu.Unlock()
}

// Probe counts a reach probe on the current simulation (no-op without one).
func Probe(name string) {
	if s := cur(); s != nil {
		s.Probe(name)
	}
}

// Logf appends a line to the run's event log (hash always, text when tracing).
func (s *Sim) Logf(format string, args ...interface{}) {
	s.mu.Lock()
	s.logLocked(format, args...)
	s.mu.Unlock()
}

func (s *Sim) logLocked(format string, args ...interface{}) {
	if s.aborting.Load() {
		return // unwinding goroutines run concurrently at teardown: nothing they do is part of the run
	}
	line := fmt.Sprintf(format, args...)
	h := s.hash
	for i := 0; i < len(line); i++ {
		h ^= uint64(line[i])
		h *= 1099511628211
	}
	h ^= '\n'
	h *= 1099511628211
	s.hash = h
	if s.cfg.Trace {
		s.trace = append(s.trace, fmt.Sprintf("%9.3fms ", float64(s.now)/1e6)+line)
	}
}

// SchedHash is the fingerprint of the schedule alone: the sequence of (task, site) releases and
// event firings, without payloads.
func (s *Sim) SchedHash() string {
	s.mu.Lock()
	defer s.mu.Unlock()
	return fmt.Sprintf("%016x", s.schedHash)
}

// StateHash summarises the set of abstract states seen (see States).
func (s *Sim) StateHash() string {
	s.mu.Lock()
	defer s.mu.Unlock()
	return fmt.Sprintf("%d", len(s.states))
}

// States returns the distinct abstract states sampled at the quiescent points of this run. An
// abstract state is the multiset of (spawn site, current scheduling site, waiting?) over all
// live tasks plus the number of pending events (capped).
func (s *Sim) States() []uint64 {
	s.mu.Lock()
	defer s.mu.Unlock()
	out := make([]uint64, 0, len(s.states))
	for h := range s.states {
		out = append(out, h)
	}
	sort.Slice(out, func(i, j int) bool { return out[i] < out[j] })
	return out
}

func fnvStr(h uint64, str string) uint64 {
	for i := 0; i < len(str); i++ {
		h ^= uint64(str[i])
		h *= 1099511628211
	}
	h ^= 0xff
	h *= 1099511628211
	return h
}

// sampleStateLocked records the abstract state at a quiescent point.
func (s *Sim) sampleStateLocked() {
	var sum uint64 // order independent combination over tasks
	for _, t := range s.live {
		if t.state == tsDone {
			continue
		}
		h := fnvStr(14695981039346656037, t.SpawnSite)
		h = fnvStr(h, t.site)
		if t.blocked != nil || t.pred != nil {
			h = fnvStr(h, "w")
		}
		if t.inOp {
			h = fnvStr(h, "o")
		}
		sum += h * 0x9e3779b97f4a7c15
	}
	n := s.events.Len()
	if n > 8 {
		n = 8
	}
	sum ^= uint64(n) << 56
	s.states[sum] = struct{}{}
}

// Tracef appends a line to the textual trace only (diagnostics that must not be part of the
// run's identity).
func (s *Sim) Tracef(format string, args ...interface{}) {
	s.mu.Lock()
	if s.cfg.Trace {
		s.trace = append(s.trace, fmt.Sprintf("%9.3fms ", float64(s.now)/1e6)+fmt.Sprintf(format, args...))
	}
	s.mu.Unlock()
}

// Hash is the fingerprint of the event log so far.
func (s *Sim) Hash() string { s.mu.Lock(); defer s.mu.Unlock(); return fmt.Sprintf("%016x", s.hash) }

// Trace returns the textual event log (only with Config.Trace).
func (s *Sim) Trace() []string {
	s.mu.Lock()
	defer s.mu.Unlock()
	return append([]string(nil), s.trace...)
}

// Tasks returns a snapshot of all tasks.
func (s *Sim) Tasks() []TaskInfo {
	s.mu.Lock()
	defer s.mu.Unlock()
	out := make([]TaskInfo, 0, len(s.tasks))
	for _, t := range s.tasks {
		out = append(out, TaskInfo{ID: t.ID, Name: t.Name, SpawnSite: t.SpawnSite, Lib: t.Lib, Done: t.state == tsDone,
			Site: t.site, InOp: t.inOp, Waiting: t.blocked != nil || t.pred != nil, Parked: t.state == tsParked})
	}
	return out
}

// TaskInfo is a snapshot of one task.
type TaskInfo struct {
	ID        int
	Name      string
	SpawnSite string
	Lib       bool
	Done      bool
	Site      string
	InOp      bool // blocked inside a real channel operation
	Waiting   bool // parked in simrt waiting for a lock, timer, socket or predicate
	Parked    bool
}

// LiveLibTasks returns the library tasks that have not finished.
func (s *Sim) LiveLibTasks() []TaskInfo {
	var out []TaskInfo
	for _, t := range s.Tasks() {
		if t.Lib && !t.Done {
			out = append(out, t)
		}
	}
	return out
}

// ---------------------------------------------------------------------------------------
// Events (timers, deliveries)

type event struct {
	due       time.Duration
	seq       uint64
	desc      string
	fire      func()
	cancelled bool
	timer     bool // subject to the timer-late fault
	postponed bool
	index     int
}

type eventHeap []*event

func (h eventHeap) Len() int { return len(h) }
func (h eventHeap) Less(i, j int) bool {
	if h[i].due != h[j].due {
		return h[i].due < h[j].due
	}
	return h[i].seq < h[j].seq
}
func (h eventHeap) Swap(i, j int)       { h[i], h[j] = h[j], h[i]; h[i].index = i; h[j].index = j }
func (h *eventHeap) Push(x interface{}) { e := x.(*event); e.index = len(*h); *h = append(*h, e) }
func (h *eventHeap) Pop() interface{} {
	old := *h
	n := len(old)
	e := old[n-1]
	*h = old[:n-1]
	e.index = -1
	return e
}

// Event is a handle on a scheduled event.
type Event struct {
	s *Sim
	e *event
}

// Cancel prevents the event from firing; it reports whether it was still pending.
func (ev *Event) Cancel() bool {
	if ev == nil || ev.e == nil {
		return false
	}
	ev.s.mu.Lock()
	defer ev.s.mu.Unlock()
	if ev.e.cancelled || ev.e.index < 0 {
		return false
	}
	ev.e.cancelled = true
	heap.Remove(&ev.s.events, ev.e.index)
	return true
}

// At schedules fire to be executed by the driver d from now. fire runs on the driver goroutine
// while every task is quiescent; it must not block.
func (s *Sim) At(d time.Duration, desc string, fire func()) *Event {
	s.mu.Lock()
	defer s.mu.Unlock()
	return s.atLocked(d, desc, false, fire)
}

func (s *Sim) atLocked(d time.Duration, desc string, timer bool, fire func()) *Event {
	if d < 0 {
		d = 0
	}
	s.evseq++
	e := &event{due: s.now + d, seq: s.evseq, desc: desc, fire: fire, timer: timer}
	heap.Push(&s.events, e)
	return &Event{s, e}
}

// ---------------------------------------------------------------------------------------
// Tasks

type abortPanic struct{}

// AbortCh is closed when the run is torn down; instrumented blocking channel operations
// carry an extra case on it so that no goroutine outlives its run. nil without a simulation.
func AbortCh() <-chan struct{} {
	if s := cur(); s != nil {
		return s.abort
	}
	return nil
}

// Aborted unwinds the calling goroutine at teardown.
func Aborted() { panic(abortPanic{}) }

// IsAbort reports whether a recovered value is the simulator unwinding a task at the end of a run;
// harness code that recovers from panics must pass it on (panic(r)) and do nothing else.
func IsAbort(r interface{}) bool { _, ok := r.(abortPanic); return ok }

func goid() int64 {
	var buf [64]byte
	n := runtime.Stack(buf[:], false)
	// "goroutine 123 ["
	var id int64
	for _, c := range buf[len("goroutine "):n] {
		if c < '0' || c > '9' {
			break
		}
		id = id*10 + int64(c-'0')
	}
	return id
}

func (s *Sim) spawn(name, site string, lib bool, fn func()) *Task {
	s.mu.Lock()
	parent := -1
	if s.current != nil {
		parent = s.current.ID
	}
	t := &Task{ID: len(s.tasks), Name: name, SpawnSite: site, Lib: lib, Parent: parent, wake: make(chan struct{}, 1), state: tsNew, site: "start"}
	s.tasks = append(s.tasks, t)
	s.live = append(s.live, t)
	if s.cfg.PCTDepth > 0 {
		t.prio = 1 + s.Dec.Choose("pct.prio", 1<<16)
	}
	s.Stats.TasksSpawned++
	if lib {
		s.Stats.LibTasks++
	}
	s.logLocked("spawn T%d %s lib=%v parent=%d", t.ID, site, lib, parent)
	if lib && s.cfg.StarvePermille > 0 && s.cfg.StarveMax > 0 && s.Dec.Chance("starve", s.cfg.StarvePermille) {
		d := time.Duration(1+s.Dec.Choose("starveamt", 16)) * s.cfg.StarveMax / 16
		t.blocked = "starved"
		s.Stats.Starved++
		s.lateTotal += d
		s.slacks = append(s.slacks, slackRec{s.now, d})
		s.logLocked("starve T%d %v", t.ID, d)
		s.atLocked(d, fmt.Sprintf("unstarve T%d", t.ID), false, func() {
			s.mu.Lock()
			if t.blocked == "starved" {
				t.blocked = nil
			}
			s.mu.Unlock()
		})
	}
	s.mu.Unlock()
	go func() {
		defer func() {
			r := recover()
			s.mu.Lock()
			if r != nil {
				if _, ok := r.(abortPanic); !ok && !s.aborting.Load() {
					p := Panic{Task: t.ID, Name: t.Name, Lib: t.Lib, Site: t.site, Val: fmt.Sprint(r), Stack: string(debug.Stack())}
					t.PanicVal, t.PanicStack = p.Val, p.Stack
					s.Panics = append(s.Panics, p)
					s.logLocked("PANIC T%d %s", t.ID, p.Val)
				}
			}
			t.state = tsDone
			t.inOp = false
			if s.current == t {
				s.current = nil
			}
			// Several tasks woken by one close() of a channel they were blocked on finish
			// concurrently: the order of their exit lines is not part of the run's identity.
			if s.cfg.Trace {
				s.trace = append(s.trace, fmt.Sprintf("%9.3fms exit T%d", float64(s.now)/1e6, t.ID))
			}
			s.exits++
			s.mu.Unlock()
		}()
		if s.cfg.Paranoid {
			t.goid = goid()
		}
		s.park(t, "start")
		fn()
	}()
	return t
}

// Go is what an instrumented `go` statement calls.
func Go(site string, fn func()) {
	s := cur()
	if s == nil {
		go fn()
		return
	}
	s.spawn(site, site, true, fn)
}

// Spawn starts a harness task.
func (s *Sim) Spawn(name string, fn func()) *Task { return s.spawn(name, "harness:"+name, false, fn) }

// park blocks the calling goroutine until the driver releases t.
func (s *Sim) park(t *Task, site string) {
	if s.aborting.Load() {
		// During teardown nothing parks: unwinding code (deferred functions) runs straight
		// through; only a task that is not already unwinding is aborted here.
		return
	}
	s.mu.Lock()
	t.state = tsParked
	t.site = site
	t.inOp = false
	if s.current == t {
		s.current = nil
	}
	s.mu.Unlock()
	select {
	case <-t.wake:
	case <-s.abort:
		panic(abortPanic{})
	}
}

func (s *Sim) me() *Task {
	s.mu.Lock()
	t := s.current
	s.mu.Unlock()
	if t == nil {
		if s.aborting.Load() {
			return nil
		}
		panic("simrt: scheduling point reached by a goroutine that does not hold the baton (uninstrumented goroutine or channel operation?)\n" + string(debug.Stack()))
	}
	if s.cfg.Paranoid && t.goid != 0 {
		if g := goid(); g != t.goid {
			panic(fmt.Sprintf("simrt: baton held by T%d (goroutine %d) but goroutine %d is running\n%s", t.ID, t.goid, g, debug.Stack()))
		}
	}
	return t
}

// Pre is the scheduling point in front of a visible operation. It returns the token that
// must be handed to Post after the operation.
func Pre(site string) *Task {
	s := cur()
	if s == nil {
		return nil
	}
	t := s.me()
	if t == nil {
		return nil
	}
	s.maybeStall(t)
	s.park(t, site)
	s.mu.Lock()
	t.inOp = true
	s.mu.Unlock()
	return t
}

// maybeStall holds a library task back at a scheduling point (fault: stalled goroutine).
func (s *Sim) maybeStall(t *Task) {
	if !t.Lib || s.aborting.Load() {
		return
	}
	s.mu.Lock()
	if s.cfg.StallPermille <= 0 || s.cfg.StallMax <= 0 || !s.Dec.Chance("stall", s.cfg.StallPermille) {
		s.mu.Unlock()
		return
	}
	d := time.Duration(1+s.Dec.Choose("stallamt", 16)) * s.cfg.StallMax / 16
	t.blocked = "stalled"
	s.Stats.Stalled++
	s.lateTotal += d
	s.slacks = append(s.slacks, slackRec{s.now, d})
	s.logLocked("stall T%d %v", t.ID, d)
	s.atLocked(d, fmt.Sprintf("unstall T%d", t.ID), false, func() {
		s.mu.Lock()
		if t.blocked == "stalled" {
			t.blocked = nil
		}
		s.mu.Unlock()
	})
	s.mu.Unlock()
	s.park(t, "stalled")
}

// Post is the scheduling point behind a (possibly blocking) channel operation. A goroutine
// that was woken by another task's operation parks here before touching any state; the task
// that still holds the baton runs on.
func Post(t *Task) {
	if t == nil {
		return
	}
	s := cur()
	if s == nil {
		return
	}
	s.mu.Lock()
	t.inOp = false
	still := s.current == t
	s.mu.Unlock()
	if still {
		return
	}
	s.park(t, t.site+"+")
}

// Yield is a plain scheduling point.
func Yield(site string) { Post(Pre(site)) }

// WaitUntil parks the calling task until pred() is true. pred is evaluated by the driver at
// quiescent points and must only read state.
func (s *Sim) WaitUntil(site string, pred func() bool) {
	t := s.me()
	if t == nil {
		return
	}
	s.mu.Lock()
	t.pred = pred
	s.mu.Unlock()
	s.park(t, site)
}

// blockOn parks the current task as not enabled until somebody clears t.blocked.
func (s *Sim) blockOn(t *Task, what interface{}, site string) {
	s.mu.Lock()
	t.blocked = what
	s.mu.Unlock()
	s.park(t, site)
}

// Block parks the calling task until Unblock(t) is called (by another task or an event).
// It returns the task so that callers can register it before blocking: use
//
//	t := s.Me(); register(t); s.Block(t, site)
func (s *Sim) Block(t *Task, site string) { s.blockOn(t, "ext", site) }

// ParentOf returns the id of the task that spawned task id (-1 for none).
func (s *Sim) ParentOf(id int) int {
	s.mu.Lock()
	defer s.mu.Unlock()
	if id < 0 || id >= len(s.tasks) {
		return -1
	}
	return s.tasks[id].Parent
}

// CurrentID returns the id of the task holding the baton (-1 if none, e.g. in an event).
func (s *Sim) CurrentID() int {
	s.mu.Lock()
	defer s.mu.Unlock()
	if s.current == nil {
		return -1
	}
	return s.current.ID
}

// Me returns the task holding the baton.
func (s *Sim) Me() *Task { return s.me() }

// Unblock makes a task parked with Block enabled again.
func (s *Sim) Unblock(t *Task) {
	s.mu.Lock()
	t.blocked = nil
	s.mu.Unlock()
}

// ---------------------------------------------------------------------------------------
// Driver

type choice struct {
	task *Task
	ev   *event
}

// Run executes root as the first task and drives the simulation until root returns, the step
// budget is exhausted or nothing can happen any more. It must be called from the root
// goroutine of a synctest bubble.
func (s *Sim) Run(root func()) {
	rt := s.Spawn("root", func() {
		root()
		s.mu.Lock()
		s.finished = true
		s.mu.Unlock()
	})
	_ = rt
	for {
		synctest.Wait()
		if s.OnQuiesce != nil {
			s.OnQuiesce()
		}
		s.mu.Lock()
		if s.current != nil && s.current.state == tsRunning {
			// The released task is blocked inside a real channel operation.
			s.current = nil
		}
		if s.finished || s.stopReq {
			s.Outcome = "finished"
			s.mu.Unlock()
			break
		}
		if s.steps >= s.cfg.MaxSteps {
			s.Outcome = "step-budget"
			s.mu.Unlock()
			break
		}
		var en []choice
		// Canonical order: the task that ran last, then the other tasks by id, then due events.
		if s.last != nil && s.enabledLocked(s.last) {
			en = append(en, choice{task: s.last})
		}
		if s.exits-s.compacted > 64 && s.exits-s.compacted > len(s.live)/2 {
			// drop the tasks that have ended from the list the scheduler walks at every step (a run
			// that spawns tens of thousands of short-lived goroutines would otherwise crawl)
			k := 0
			for _, t := range s.live {
				if t.state != tsDone {
					s.live[k] = t
					k++
				}
			}
			clear(s.live[k:])
			s.live = s.live[:k]
			s.compacted = s.exits
		}
		for _, t := range s.live {
			if t != s.last && s.enabledLocked(t) {
				en = append(en, choice{task: t})
			}
		}
		ntasks := len(en)
		// due events: in a binary heap every ancestor of a due event is due as well
		var due []*event
		if n := len(s.events); n > 0 && s.events[0].due <= s.now {
			stack := []int{0}
			// (at most 64 of them are offered to the scheduler at a step: with thousands of leaked
			// timers due at once, enumerating and sorting them all at every step is quadratic)
			for len(stack) > 0 && len(due) < 64 {
				i := stack[len(stack)-1]
				stack = stack[:len(stack)-1]
				if i >= n || s.events[i].due > s.now {
					continue
				}
				due = append(due, s.events[i])
				stack = append(stack, 2*i+1, 2*i+2)
			}
		}
		sort.Slice(due, func(i, j int) bool {
			if due[i].due != due[j].due {
				return due[i].due < due[j].due
			}
			return due[i].seq < due[j].seq
		})
		for _, e := range due {
			en = append(en, choice{ev: e})
		}
		if len(due) >= 2 {
			s.Stats.TimerTies++
		}
		if len(en) == 0 {
			if s.events.Len() == 0 {
				s.Outcome = "stalled"
				s.mu.Unlock()
				break
			}
			s.now = s.events[0].due
			s.sameInstant = 0
			s.Stats.TimeAdvances++
			s.mu.Unlock()
			continue
		}
		// Spin guard: a task that never blocks would keep the clock still for ever.
		s.sameInstant++
		if s.sameInstant > s.cfg.SpinLimit && ntasks > 0 && len(due) == 0 && s.events.Len() > 0 {
			d := s.events[0].due - s.now
			s.forcedJump += d
			s.now = s.events[0].due
			s.sameInstant = 0
			s.Stats.ClockJumps++
			s.logLocked("spin-guard jump %v", d)
			s.mu.Unlock()
			continue
		}
		s.sampleStateLocked()
		if len(en) > s.Stats.MaxEnabled {
			s.Stats.MaxEnabled = len(en)
		}
		idx := 0
		if len(en) > 1 {
			s.Stats.MultiEnabled++
			s.Stats.Decisions++
			if s.cfg.PCTDepth > 0 {
				if s.pctPoints == nil {
					s.pctPoints = map[int]bool{}
					for i := 0; i < s.cfg.PCTDepth; i++ {
						s.pctPoints[s.Dec.Choose("pct.cp", 3000)] = true
					}
				}
				if s.pctPoints[s.steps] && s.last != nil {
					s.pctLow--
					s.last.prio = s.pctLow // demoted below everybody
				}
				// due events against tasks: a coin; among tasks: the highest priority
				if ntasks == 0 || len(due) > 0 && s.Dec.Choose("pct.ev", 2) == 1 {
					idx = ntasks + s.Dec.Choose("pct.evpick", len(en)-ntasks)
				} else {
					for i := 1; i < ntasks; i++ {
						if en[i].task.prio > en[idx].task.prio || en[i].task.prio == en[idx].task.prio && en[i].task.ID < en[idx].task.ID {
							idx = i
						}
					}
				}
			} else {
				idx = s.Dec.ChooseBiased("sched", len(en), s.cfg.StickyPermille)
			}
		}
		c := en[idx]
		s.steps++
		s.Stats.Steps = s.steps
		if c.task != nil {
			t := c.task
			t.state = tsRunning
			t.pred = nil
			s.current = t
			s.last = t
			s.logLocked("run T%d@%s", t.ID, t.site)
			s.schedHash = fnvStr(fnvStr(s.schedHash, t.SpawnSite), t.site)
			s.mu.Unlock()
			t.wake <- struct{}{}
			continue
		}
		e := c.ev
		if e.timer && !e.postponed && s.cfg.LatePermille > 0 && s.cfg.LateMax > 0 {
			if s.Dec.Chance("late", s.cfg.LatePermille) {
				d := time.Duration(1+s.Dec.Choose("lateamt", 1000)) * s.cfg.LateMax / 1000
				heap.Remove(&s.events, e.index)
				e.due = s.now + d
				e.postponed = true
				heap.Push(&s.events, e)
				s.lateTotal += d
				s.slacks = append(s.slacks, slackRec{s.now, d})
				s.Stats.TimerLate++
				s.logLocked("late %s +%v", e.desc, d)
				s.mu.Unlock()
				continue
			}
		}
		heap.Remove(&s.events, e.index)
		s.logLocked("fire %s", e.desc)
		s.schedHash = fnvStr(s.schedHash, "fire")
		s.mu.Unlock()
		e.fire()
	}
	if s.Outcome != "finished" {
		s.BlockedAtEnd = s.BlockedReport()
	}
	s.teardown()
}

func (s *Sim) enabledLocked(t *Task) bool {
	if t.state != tsParked || t.blocked != nil {
		return false
	}
	if t.pred != nil && !t.pred() {
		return false
	}
	return true
}

// Stop asks the driver to end the run at the next quiescent point.
func (s *Sim) Stop() { s.mu.Lock(); s.stopReq = true; s.mu.Unlock() }

func (s *Sim) teardown() {
	s.mu.Lock()
	s.current = nil
	s.mu.Unlock()
	s.aborting.Store(true)
	close(s.abort)
	// Everything that was parked or blocked in an instrumented operation now unwinds.
	synctest.Wait()
}

// BlockedReport lists unfinished tasks with where they are stuck (for diagnostics).
func (s *Sim) BlockedReport() string {
	var b strings.Builder
	for _, t := range s.Tasks() {
		if !t.Done {
			fmt.Fprintf(&b, "T%d %s spawn=%s at=%s inop=%v waiting=%v\n", t.ID, t.Name, t.SpawnSite, t.Site, t.InOp, t.Waiting)
		}
	}
	return b.String()
}
