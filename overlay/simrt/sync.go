//go:build go1.21

package simrt

import (
	"sync"
)

// Mutex replaces sync.Mutex in instrumented sources. Under simulation Lock is a scheduling
// point, a blocked locker is parked durably and Unlock hands the lock to the longest waiter
// (FIFO hand-over: sync.Mutex's behaviour when nobody barges, and its mandatory behaviour in
// starvation mode). Without a simulation it is a sync.Mutex.
type Mutex struct {
	real    sync.Mutex
	held    bool
	owner   *Task
	waiters []*Task
	name    string
}

// LockEvent is reported to Sim.OnLock (grey-box observation used by the pacing oracle).
type LockEvent struct {
	M        *Mutex
	Task     int
	TaskName string
	Site     string
	Kind     string // "request" (Lock called), "queued" (joined the wait queue), "acquire", "unlock"
}

// OnLock, when set, receives every lock event of the run.
func (s *Sim) SetOnLock(f func(LockEvent)) { s.mu.Lock(); s.onLock = f; s.mu.Unlock() }

func (s *Sim) lockEvent(m *Mutex, t *Task, kind string) {
	s.mu.Lock()
	f := s.onLock
	s.mu.Unlock()
	if f != nil {
		f(LockEvent{M: m, Task: t.ID, TaskName: t.Name, Site: t.site, Kind: kind})
	}
}

// Lock locks m.
func (m *Mutex) Lock() {
	s := cur()
	if s == nil {
		m.real.Lock()
		return
	}
	if s.aborting.Load() {
		return
	}
	t := s.me()
	if t == nil {
		return
	}
	s.lockEvent(m, t, "request")
	s.park(t, "lock")
	s.mu.Lock()
	if !m.held {
		m.held = true
		m.owner = t
		s.logLocked("lock T%d", t.ID)
		s.mu.Unlock()
		s.lockEvent(m, t, "acquire")
		return
	}
	m.waiters = append(m.waiters, t)
	s.logLocked("lockwait T%d", t.ID)
	s.mu.Unlock()
	s.lockEvent(m, t, "queued")
	s.blockOn(t, m, "lockwait")
	// Ownership was handed over by Unlock.
	s.lockEvent(m, t, "acquire")
}

// TryLock tries to lock m.
func (m *Mutex) TryLock() bool {
	s := cur()
	if s == nil {
		return m.real.TryLock()
	}
	t := s.me()
	if t == nil {
		return true
	}
	s.mu.Lock()
	defer s.mu.Unlock()
	if m.held {
		return false
	}
	m.held = true
	m.owner = t
	return true
}

// Unlock unlocks m. It may be called from a goroutine other than the locker.
func (m *Mutex) Unlock() {
	s := cur()
	if s == nil {
		m.real.Unlock()
		return
	}
	if s.aborting.Load() {
		return
	}
	s.mu.Lock()
	if !m.held {
		s.mu.Unlock()
		// The real runtime stops the whole process here ("fatal error: sync: unlock of
		// unlocked mutex"); it cannot be recovered.
		s.Fatal("sync: unlock of unlocked mutex")
		return
	}
	var cid int = -1
	if s.current != nil {
		cid = s.current.ID
	}
	if len(m.waiters) > 0 {
		w := m.waiters[0]
		m.waiters = m.waiters[1:]
		m.owner = w
		w.blocked = nil
		s.logLocked("unlock by T%d -> T%d", cid, w.ID)
	} else {
		m.held = false
		m.owner = nil
		s.logLocked("unlock by T%d", cid)
	}
	f := s.onLock
	ct := s.current
	s.mu.Unlock()
	if f != nil {
		ev := LockEvent{M: m, Task: -1, Kind: "unlock"}
		if ct != nil {
			ev.Task, ev.TaskName, ev.Site = ct.ID, ct.Name, ct.site
		}
		f(ev)
	}
	// Leaving a critical section is a point at which a real scheduler may switch goroutines.
	if ct != nil && ct.state == tsRunning {
		s.maybeStall(ct)
		s.park(ct, "unlocked")
	}
}

// Fatal records an unrecoverable runtime error (the real process would have died).
func (s *Sim) Fatal(msg string) {
	s.mu.Lock()
	id, name, site, lib := -1, "driver", "", false
	if s.current != nil {
		id, name, site, lib = s.current.ID, s.current.Name, s.current.site, s.current.Lib
	}
	s.Panics = append(s.Panics, Panic{Task: id, Name: name, Lib: lib, Site: site, Val: "fatal error: " + msg})
	s.logLocked("FATAL %s", msg)
	s.mu.Unlock()
}

// RWMutex replaces sync.RWMutex (modelled as an exclusive lock for writers and a counted
// share for readers; writers wait for readers, FIFO among writers).
type RWMutex struct {
	real    sync.RWMutex
	w       Mutex
	readers int
	rwait   []*Task
	wwait   *Task
}

func (m *RWMutex) Lock() {
	s := cur()
	if s == nil {
		m.real.Lock()
		return
	}
	m.w.Lock()
	t := s.me()
	if t == nil {
		return
	}
	s.mu.Lock()
	if m.readers > 0 {
		m.wwait = t
		s.mu.Unlock()
		s.blockOn(t, m, "rwlockwait")
		return
	}
	s.mu.Unlock()
}

func (m *RWMutex) Unlock() {
	s := cur()
	if s == nil {
		m.real.Unlock()
		return
	}
	m.w.Unlock()
}

func (m *RWMutex) RLock() {
	s := cur()
	if s == nil {
		m.real.RLock()
		return
	}
	// A reader passes through the writer lock to queue behind writers.
	m.w.Lock()
	s.mu.Lock()
	m.readers++
	s.mu.Unlock()
	m.w.Unlock()
}

func (m *RWMutex) RUnlock() {
	s := cur()
	if s == nil {
		m.real.RUnlock()
		return
	}
	if s.aborting.Load() {
		return
	}
	s.mu.Lock()
	m.readers--
	if m.readers < 0 {
		s.mu.Unlock()
		s.Fatal("sync: RUnlock of unlocked RWMutex")
		return
	}
	if m.readers == 0 && m.wwait != nil {
		m.wwait.blocked = nil
		m.wwait = nil
	}
	s.mu.Unlock()
}

func (m *RWMutex) RLocker() sync.Locker { return rlocker{m} }

type rlocker struct{ m *RWMutex }

func (r rlocker) Lock()   { r.m.RLock() }
func (r rlocker) Unlock() { r.m.RUnlock() }

// Once replaces sync.Once.
type Once struct {
	real    sync.Once
	done    bool
	running bool
	waiters []*Task
}

// Do calls f if and only if Do is being called for the first time for this instance; later
// callers block until the first call has returned.
func (o *Once) Do(f func()) {
	s := cur()
	if s == nil {
		o.real.Do(f)
		return
	}
	t := s.me()
	if t == nil {
		return
	}
	s.park(t, "once")
	s.mu.Lock()
	if o.done {
		s.mu.Unlock()
		return
	}
	if o.running {
		o.waiters = append(o.waiters, t)
		s.mu.Unlock()
		s.blockOn(t, o, "oncewait")
		return
	}
	o.running = true
	s.mu.Unlock()
	defer func() {
		s.mu.Lock()
		o.done = true
		o.running = false
		for _, w := range o.waiters {
			w.blocked = nil
		}
		o.waiters = nil
		s.mu.Unlock()
	}()
	f()
}

// WaitGroup replaces sync.WaitGroup.
type WaitGroup struct {
	real    sync.WaitGroup
	n       int
	waiters []*Task
}

func (wg *WaitGroup) Add(delta int) {
	s := cur()
	if s == nil {
		wg.real.Add(delta)
		return
	}
	if s.aborting.Load() {
		return
	}
	s.mu.Lock()
	wg.n += delta
	if wg.n < 0 {
		s.mu.Unlock()
		panic("sync: negative WaitGroup counter")
	}
	if wg.n == 0 {
		for _, w := range wg.waiters {
			w.blocked = nil
		}
		wg.waiters = nil
	}
	s.mu.Unlock()
}

func (wg *WaitGroup) Done() { wg.Add(-1) }

func (wg *WaitGroup) Wait() {
	s := cur()
	if s == nil {
		wg.real.Wait()
		return
	}
	t := s.me()
	if t == nil {
		return
	}
	s.park(t, "wgwait")
	s.mu.Lock()
	if wg.n == 0 {
		s.mu.Unlock()
		return
	}
	wg.waiters = append(wg.waiters, t)
	s.mu.Unlock()
	s.blockOn(t, wg, "wgwait")
}

// Go calls f in a new goroutine and adds it to the group (sync.WaitGroup.Go, Go 1.25).
func (wg *WaitGroup) Go(f func()) {
	wg.Add(1)
	Go("wg.Go", func() {
		defer wg.Done()
		f()
	})
}
