//go:build go1.21

package simrt

import (
	"fmt"
	"math/rand"
	"time"
)

var epoch = time.Unix(1700000000, 0)

// Now replaces time.Now.
func Now() time.Time {
	s := cur()
	if s == nil {
		return time.Now()
	}
	return epoch.Add(s.Now())
}

// SimOffset converts a time.Time obtained from Now (plus arithmetic) back into simulated time.
func SimOffset(t time.Time) time.Duration { return t.Sub(epoch) }

// Since replaces time.Since.
func Since(t time.Time) time.Duration { return Now().Sub(t) }

// Until replaces time.Until.
func Until(t time.Time) time.Duration { return t.Sub(Now()) }

// Sleep replaces time.Sleep.
func Sleep(d time.Duration) {
	s := cur()
	if s == nil {
		time.Sleep(d)
		return
	}
	s.SleepFor(d)
}

// SleepFor parks the calling task for d of simulated time.
func (s *Sim) SleepFor(d time.Duration) {
	t := s.me()
	if t == nil {
		return
	}
	if d <= 0 {
		s.park(t, "sleep0")
		return
	}
	s.mu.Lock()
	t.blocked = "sleep"
	s.atLocked(d, fmt.Sprintf("wake T%d", t.ID), true, func() {
		s.mu.Lock()
		t.blocked = nil
		s.mu.Unlock()
	})
	s.mu.Unlock()
	s.park(t, "sleep")
}

// Timer replaces time.Timer (channel of capacity one, as for modules below go 1.23).
type Timer struct {
	C <-chan time.Time

	rt   *time.Timer
	s    *Sim
	ch   chan time.Time
	fn   func()
	ev   *Event
	site string
}

func (s *Sim) armTimer(t *Timer, d time.Duration) {
	s.mu.Lock()
	defer s.mu.Unlock()
	s.timerSeq++
	id := s.timerSeq
	if t.fn != nil {
		fn := t.fn
		t.ev = s.atLocked(d, fmt.Sprintf("afterfunc#%d", id), true, func() {
			s.spawn("afterfunc", "afterfunc:"+t.site, true, fn)
		})
		return
	}
	ch := t.ch
	t.ev = s.atLocked(d, fmt.Sprintf("timer#%d", id), true, func() {
		select {
		case ch <- epoch.Add(s.Now()):
		default:
		}
	})
}

// NewTimer replaces time.NewTimer.
func NewTimer(d time.Duration) *Timer {
	s := cur()
	if s == nil {
		rt := time.NewTimer(d)
		return &Timer{C: rt.C, rt: rt}
	}
	ch := make(chan time.Time, 1)
	t := &Timer{C: ch, ch: ch, s: s}
	s.armTimer(t, d)
	return t
}

// After replaces time.After.
func After(d time.Duration) <-chan time.Time {
	if cur() == nil {
		return time.After(d)
	}
	return NewTimer(d).C
}

// AfterFunc replaces time.AfterFunc: f runs in its own goroutine (task) when the timer fires.
func AfterFunc(d time.Duration, f func()) *Timer {
	s := cur()
	if s == nil {
		return &Timer{rt: time.AfterFunc(d, f)}
	}
	t := &Timer{fn: f, s: s, site: "AfterFunc"}
	s.armTimer(t, d)
	return t
}

// Stop replaces (*time.Timer).Stop.
func (t *Timer) Stop() bool {
	if t.rt != nil {
		return t.rt.Stop()
	}
	return t.ev.Cancel()
}

// Reset replaces (*time.Timer).Reset.
func (t *Timer) Reset(d time.Duration) bool {
	if t.rt != nil {
		return t.rt.Reset(d)
	}
	active := t.ev.Cancel()
	t.s.armTimer(t, d)
	return active
}

// Ticker replaces time.Ticker.
type Ticker struct {
	C <-chan time.Time

	rt     *time.Ticker
	s      *Sim
	ch     chan time.Time
	period time.Duration
	next   time.Duration
	ev     *Event
	id     uint64
	stop   bool
}

func (s *Sim) armTicker(t *Ticker) {
	// s.mu held
	d := t.next - s.now
	t.ev = s.atLocked(d, fmt.Sprintf("ticker#%d", t.id), true, func() {
		select {
		case t.ch <- epoch.Add(s.Now()):
		default: // slow receiver: the tick is dropped, as time.Ticker does
		}
		s.mu.Lock()
		if !t.stop {
			t.next += t.period
			if t.next < s.now {
				// fell behind by more than a period: skip the missed ticks
				t.next = s.now + t.period
			}
			s.armTicker(t)
		}
		s.mu.Unlock()
	})
}

// NewTicker replaces time.NewTicker.
func NewTicker(d time.Duration) *Ticker {
	s := cur()
	if s == nil {
		rt := time.NewTicker(d)
		return &Ticker{C: rt.C, rt: rt}
	}
	if d <= 0 {
		panic("non-positive interval for NewTicker")
	}
	ch := make(chan time.Time, 1)
	t := &Ticker{C: ch, ch: ch, s: s, period: d}
	s.mu.Lock()
	s.timerSeq++
	t.id = s.timerSeq
	t.next = s.now + d
	s.armTicker(t)
	s.mu.Unlock()
	return t
}

// Tick replaces time.Tick.
func Tick(d time.Duration) <-chan time.Time {
	if d <= 0 {
		return nil
	}
	return NewTicker(d).C
}

// Stop replaces (*time.Ticker).Stop.
func (t *Ticker) Stop() {
	if t.rt != nil {
		t.rt.Stop()
		return
	}
	t.s.mu.Lock()
	t.stop = true
	t.s.mu.Unlock()
	t.ev.Cancel()
}

// Reset replaces (*time.Ticker).Reset.
func (t *Ticker) Reset(d time.Duration) {
	if t.rt != nil {
		t.rt.Reset(d)
		return
	}
	if d <= 0 {
		panic("non-positive interval for Ticker.Reset")
	}
	t.ev.Cancel()
	t.s.mu.Lock()
	t.period = d
	t.next = t.s.now + d
	t.s.armTicker(t)
	t.s.mu.Unlock()
}

// ---------------------------------------------------------------------------------------
// math/rand replacements (T6): the values come from the decision stream.

func RandFloat64() float64 {
	s := cur()
	if s == nil {
		return rand.Float64()
	}
	return float64(s.Dec.Choose("rand", 1000)) / 1000
}

func RandFloat32() float32 { return float32(RandFloat64()) }

func RandIntn(n int) int {
	s := cur()
	if s == nil {
		return rand.Intn(n)
	}
	if n <= 0 {
		panic("invalid argument to Intn")
	}
	return s.Dec.Choose("rand", n)
}

func RandInt63n(n int64) int64 {
	s := cur()
	if s == nil {
		return rand.Int63n(n)
	}
	if n <= 0 {
		panic("invalid argument to Int63n")
	}
	m := n
	if m > 1<<30 {
		m = 1 << 30
	}
	return int64(s.Dec.Choose("rand", int(m)))
}

func RandInt31n(n int32) int32 { return int32(RandInt63n(int64(n))) }
func RandInt() int             { return int(RandInt63n(1 << 30)) }
func RandInt63() int64         { return RandInt63n(1 << 30) }
func RandInt31() int32         { return int32(RandInt63n(1 << 30)) }
func RandUint32() uint32       { return uint32(RandInt63n(1 << 30)) }

func RandPerm(n int) []int {
	s := cur()
	if s == nil {
		return rand.Perm(n)
	}
	p := make([]int, n)
	for i := range p {
		p[i] = i
	}
	for i := n - 1; i > 0; i-- {
		j := s.Dec.Choose("rand", i+1)
		p[i], p[j] = p[j], p[i]
	}
	return p
}

// ---------------------------------------------------------------------------------------
// Helpers for instrumented selects and channel operations (T2, T3).

// Zero returns the zero value of the channel's element type (used to declare receive targets
// of an instrumented select without type information).
func Zero[T any](ch <-chan T) (z T) { return }

// SelStart returns the index at which an instrumented select starts polling its n cases:
// which ready case wins is a recorded decision instead of a runtime coin flip.
func SelStart(n int) int {
	s := cur()
	if s == nil || n <= 1 {
		if n > 1 {
			return rand.Intn(n)
		}
		return 0
	}
	return s.Dec.Choose("select", n)
}

// Recv is an instrumented single-value channel receive.
func Recv[T any](site string, ch <-chan T) T {
	t := Pre(site)
	var v T
	select {
	case v = <-ch:
	case <-AbortCh():
		Aborted()
	}
	Post(t)
	return v
}

// Recv2 is an instrumented two-value channel receive.
func Recv2[T any](site string, ch <-chan T) (T, bool) {
	t := Pre(site)
	var v T
	var ok bool
	select {
	case v, ok = <-ch:
	case <-AbortCh():
		Aborted()
	}
	Post(t)
	return v, ok
}

// CloseChan is an instrumented close (also usable in a defer statement).
func CloseChan[T any](site string, ch chan<- T) {
	Yield(site)
	close(ch)
}

// Unwind is deferred around every instrumented blocking channel operation. A goroutine that
// another task woke by closing the channel it was sending on panics out of the operation: its
// deferred functions must not run concurrently with the task holding the baton, so the panic
// is held here until the scheduler picks this task, and then continues.
func Unwind(t *Task) {
	if r := recover(); r != nil {
		if _, ok := r.(abortPanic); ok {
			panic(r)
		}
		Post(t)
		panic(r)
	}
}
