//go:build go1.21

// Package simnet is the simulated network that the instrumented knxnet/socket.go is compiled
// against: UDP unicast and multicast datagrams and TCP byte streams over an in-memory fabric
// whose every fate decision (loss, duplication, delay, segmentation, errors) comes from the
// run's decision stream. See /verif/DESIGN.md §2.5.
package simnet

import (
	"errors"
	"fmt"
	"io"
	"net"
	"os"
	"sort"
	"sync"
	"time"

	"github.com/vapourismo/knx-go/knx/simrt"
)

// Link describes the faults of one direction between two hosts.
type Link struct {
	DropPermille     int
	DupPermille      int
	DelayMin         time.Duration
	DelayMax         time.Duration
	LatePermille     int           // extra-late delivery (beyond resend intervals)
	LateExtra        time.Duration // how late at most
	WriteErrPermille int
	// SlowWritePermille: a write stalls inside the system call for up to SlowWriteMax of
	// simulated time before the data leaves (a full socket buffer, a loaded machine).
	SlowWritePermille int
	SlowWriteMax      time.Duration
	SlowWriteSlack    bool // count the stalls as slack (Sim.LateTotal) instead of leaving them to the scenario's own bounds
}

// Config of the fabric.
type Config struct {
	Default          Link
	Links            map[string]Link // "srcIP>dstIP"
	RcvBuf           int             // datagrams per socket buffer (0 = 256)
	TCPCut           bool            // reads return decision-chosen prefixes
	TCPCoalesceDelay time.Duration
	LocalIP          string // default host of library-created sockets
}

// Rec is one entry of the wire log.
type Rec struct {
	Seq  uint64 // global event sequence number
	T    time.Duration
	Kind string // "send", "drop", "werr", "arrive", "read", "overflow", "filtered", "tcpwrite", "tcpread"
	Src  string
	Dst  string
	Data []byte
	Seq0 uint64 // for send/werr after a stalled write: event number and time at which the call began ("wstart" record)
	T0   time.Duration
	Full []byte // for read: the whole datagram, when the caller's buffer was too small for it (Data is what it got)
	Ref  uint64 // for arrive/read: Seq of the send
	Sock string // label of the socket concerned
	Copy int
	Err  string
	Task int // task that performed the operation (-1: the driver, e.g. a timer callback)
}

// Fabric is the simulated network of one run.
type Fabric struct {
	mu    sync.Mutex
	s     *simrt.Sim
	cfg   Config
	socks []*UDPConn
	lis   map[string]*TCPListener
	tcps  []*TCPConn
	port  int
	hosts map[int]string // task id -> host ip
	Log   []Rec
	Fired map[string]int // fault kinds that actually fired
	// DeliverFilter, if set, may veto the arrival of a datagram (assumption guards).
	DeliverFilter func(r *Rec) bool
	// OnSend is called for every datagram handed to the network by any socket.
	OnSend func(r *Rec)
	// Fate, if set, overrides the random fate of a datagram: it returns the list of delivery
	// delays (empty = drop) or nil to let the fabric decide.
	Fate func(r *Rec) []time.Duration
}

var curFab *Fabric

// New creates the fabric of a run and makes it current.
func New(s *simrt.Sim, cfg Config) *Fabric {
	if cfg.RcvBuf <= 0 {
		cfg.RcvBuf = 256
	}
	if cfg.LocalIP == "" {
		cfg.LocalIP = "10.0.0.2"
	}
	f := &Fabric{s: s, cfg: cfg, lis: map[string]*TCPListener{}, port: 40000, hosts: map[int]string{}, Fired: map[string]int{}}
	curFab = f
	return f
}

// Close detaches the fabric.
func (f *Fabric) Close() {
	if curFab == f {
		curFab = nil
	}
}

// Current returns the current fabric.
func Current() *Fabric { return curFab }

// BindTaskHost makes sockets created by task id (and by tasks it spawns) live on host ip.
func (f *Fabric) BindTaskHost(id int, ip string) { f.mu.Lock(); f.hosts[id] = ip; f.mu.Unlock() }

func (f *Fabric) hostOfCurrent() string {
	id := f.s.CurrentID()
	for id >= 0 {
		f.mu.Lock()
		h, ok := f.hosts[id]
		f.mu.Unlock()
		if ok {
			return h
		}
		id = f.s.ParentOf(id)
	}
	return f.cfg.LocalIP
}

// SetLink sets the fault model of the direction src -> dst.
func (f *Fabric) SetLink(src, dst string, l Link) {
	f.mu.Lock()
	if f.cfg.Links == nil {
		f.cfg.Links = map[string]Link{}
	}
	f.cfg.Links[src+">"+dst] = l
	f.mu.Unlock()
}

// SetTCPCut switches decision-chosen short reads on TCP connections on or off.
func (f *Fabric) SetTCPCut(on bool) { f.mu.Lock(); f.cfg.TCPCut = on; f.mu.Unlock() }

func (f *Fabric) link(src, dst string) Link {
	f.mu.Lock()
	defer f.mu.Unlock()
	if l, ok := f.cfg.Links[src+">"+dst]; ok {
		return l
	}
	return f.cfg.Default
}

func (f *Fabric) fired(kind string) {
	f.Fired[kind]++
}

func (f *Fabric) rec(r Rec) *Rec {
	r.T, r.Seq = f.s.Stamp()
	r.Task = f.s.CurrentID()
	f.mu.Lock()
	f.Log = append(f.Log, r)
	rr := &f.Log[len(f.Log)-1]
	f.mu.Unlock()
	f.s.Logf("net %s %s>%s %x ref=%d sock=%s %s", r.Kind, r.Src, r.Dst, r.Data, r.Ref, r.Sock, r.Err)
	return rr
}

// Records returns a copy of the wire log.
func (f *Fabric) Records() []Rec {
	f.mu.Lock()
	defer f.mu.Unlock()
	return append([]Rec(nil), f.Log...)
}

// LibUDPConns returns the open UDP sockets created by library code.
func (f *Fabric) LibUDPConns() []*UDPConn {
	f.mu.Lock()
	defer f.mu.Unlock()
	var out []*UDPConn
	for _, c := range f.socks {
		if c.Lib && !c.closed {
			out = append(out, c)
		}
	}
	return out
}

// OpenSockets lists the labels of sockets and connections that are still open.
func (f *Fabric) OpenSockets() []string {
	f.mu.Lock()
	defer f.mu.Unlock()
	var out []string
	for _, c := range f.socks {
		if !c.closed {
			out = append(out, c.Label)
		}
	}
	for _, c := range f.tcps {
		if !c.closed {
			out = append(out, c.Label)
		}
	}
	sort.Strings(out)
	return out
}

var errClosed = fmt.Errorf("use of closed network connection")

// ---------------------------------------------------------------------------------------
// UDP

type dgram struct {
	ref  uint64
	src  *net.UDPAddr
	data []byte
}

// UDPConn is the simulated *net.UDPConn.
type UDPConn struct {
	f        *Fabric
	Label    string
	host     string
	local    *net.UDPAddr
	remote   *net.UDPAddr // non-nil: connected
	q        []dgram
	closed   bool
	readers  []*simrt.Task
	pendErr  error         // reported once by the next Read or Write (ICMP)
	rcvBytes int           // >0: receive buffer size set by SetReadBuffer
	rdl      time.Duration // read deadline in simulated time (0 = none)
	groups   []net.IP
	loop     bool
	Lib      bool // created by library code
	// LastRef is the wire-log sequence number of the send that produced the datagram returned
	// by the most recent read (harness actors use it to recognise stale copies).
	LastRef uint64
}

func opErr(op string, c *UDPConn, err error) error {
	return &net.OpError{Op: op, Net: "udp", Source: c.local, Addr: c.remote, Err: err}
}

func (f *Fabric) newUDP(host string, local, remote *net.UDPAddr) *UDPConn {
	c := &UDPConn{f: f, host: host, local: local, remote: remote, loop: true}
	c.Label = fmt.Sprintf("udp:%s", local)
	if remote != nil {
		c.Label += ">" + remote.String()
	}
	c.Lib = true
	f.mu.Lock()
	f.socks = append(f.socks, c)
	f.mu.Unlock()
	f.s.Logf("net open %s", c.Label)
	return c
}

// DialUDP replaces net.DialUDP.
func DialUDP(network string, laddr, raddr *net.UDPAddr) (*UDPConn, error) {
	f := curFab
	if f == nil {
		return nil, errors.New("simnet: no fabric")
	}
	if raddr == nil {
		return nil, &net.OpError{Op: "dial", Net: network, Err: errors.New("missing address")}
	}
	host := f.hostOfCurrent()
	local := &net.UDPAddr{IP: net.ParseIP(host).To4()}
	if laddr != nil {
		if laddr.IP != nil && !laddr.IP.IsUnspecified() {
			local.IP = laddr.IP
		}
		local.Port = laddr.Port
	}
	if local.Port == 0 {
		f.mu.Lock()
		f.port++
		local.Port = f.port
		f.mu.Unlock()
	}
	return f.newUDP(host, local, raddr), nil
}

// ListenUDP replaces net.ListenUDP.
func ListenUDP(network string, laddr *net.UDPAddr) (*UDPConn, error) {
	f := curFab
	if f == nil {
		return nil, errors.New("simnet: no fabric")
	}
	host := f.hostOfCurrent()
	local := &net.UDPAddr{IP: net.IPv4zero.To4()}
	if laddr != nil {
		if laddr.IP != nil {
			local.IP = laddr.IP
		}
		local.Port = laddr.Port
	}
	if local.Port == 0 {
		f.mu.Lock()
		f.port++
		local.Port = f.port
		f.mu.Unlock()
	}
	return f.newUDP(host, local, nil), nil
}

// ListenUDPOn is ListenUDP for harness actors living on an explicit host.
func (f *Fabric) ListenUDPOn(host string, port int) *UDPConn {
	c := f.newUDP(host, &net.UDPAddr{IP: net.ParseIP(host).To4(), Port: port}, nil)
	c.Lib = false
	return c
}

func (c *UDPConn) LocalAddr() net.Addr { return c.local }
func (c *UDPConn) RemoteAddr() net.Addr {
	if c.remote == nil {
		return nil
	}
	return c.remote
}
func (c *UDPConn) SetDeadline(t time.Time) error { return c.SetReadDeadline(t) }

// SetReadDeadline: a read that has not completed by t fails with a timeout error (writes never
// block in this fabric, so write deadlines have nothing to do).
func (c *UDPConn) SetReadDeadline(t time.Time) error {
	c.f.mu.Lock()
	c.rdl = deadlineOf(t)
	rs := c.readers
	c.readers = nil
	c.f.mu.Unlock()
	for _, r := range rs {
		c.f.s.Unblock(r) // blocked readers look at the new deadline
	}
	return nil
}

// Further methods of *net.UDPConn that a refactoring might reach for.
func (c *UDPConn) ReadMsgUDP(b, oob []byte) (n, oobn, flags int, addr *net.UDPAddr, err error) {
	n, addr, err = c.read(b)
	return
}
func (c *UDPConn) WriteMsgUDP(b, oob []byte, addr *net.UDPAddr) (n, oobn int, err error) {
	if addr == nil {
		n, err = c.Write(b)
	} else {
		n, err = c.WriteToUDP(b, addr)
	}
	return
}

// deadlineOf turns a deadline into simulated time (0 = none; a deadline in the past becomes 1 ns).
func deadlineOf(t time.Time) time.Duration {
	if t.IsZero() {
		return 0
	}
	d := simrt.SimOffset(t)
	if d <= 0 {
		d = 1
	}
	return d
}

type timeoutError struct{}

func (timeoutError) Error() string   { return "i/o timeout" }
func (timeoutError) Timeout() bool   { return true }
func (timeoutError) Temporary() bool { return true }
func (timeoutError) Is(err error) bool {
	return err == os.ErrDeadlineExceeded
}
func (c *UDPConn) SetWriteDeadline(time.Time) error { return nil }

// SetReadBuffer limits the receive queue the way a kernel does: the requested size is doubled, not
// less than 2304 octets, and every queued datagram is charged its length plus bookkeeping overhead;
// a datagram that does not fit is dropped ("overflow"). Without a call the fabric's default
// (Config.RcvBuf datagrams) applies.
func (c *UDPConn) SetReadBuffer(n int) error {
	c.f.mu.Lock()
	c.rcvBytes = 2 * n
	if c.rcvBytes < 2304 {
		c.rcvBytes = 2304
	}
	c.f.mu.Unlock()
	return nil
}
func (c *UDPConn) SetWriteBuffer(int) error { return nil }

// srcAddr is the address peers see as the origin of this socket's datagrams.
func (c *UDPConn) srcAddr() *net.UDPAddr {
	ip := c.local.IP
	if ip == nil || ip.IsUnspecified() || ip.IsMulticast() {
		ip = net.ParseIP(c.host).To4()
	}
	return &net.UDPAddr{IP: ip, Port: c.local.Port}
}

// Close closes the socket; blocked readers fail.
func (c *UDPConn) Close() error {
	f := c.f
	f.mu.Lock()
	if c.closed {
		f.mu.Unlock()
		return opErr("close", c, errClosed)
	}
	c.closed = true
	rs := c.readers
	c.readers = nil
	f.mu.Unlock()
	f.s.Logf("net close %s", c.Label)
	for _, r := range rs {
		f.s.Unblock(r)
	}
	return nil
}

// InjectReadError makes the next read fail with err (as an ICMP error does on a connected socket).
func (c *UDPConn) InjectReadError(err error) {
	f := c.f
	f.mu.Lock()
	c.pendErr = err
	rs := c.readers
	c.readers = nil
	f.fired("read-error")
	f.mu.Unlock()
	for _, r := range rs {
		f.s.Unblock(r)
	}
}

func (c *UDPConn) read(b []byte) (int, *net.UDPAddr, error) {
	f := c.f
	s := f.s
	t := s.Me()
	for {
		f.mu.Lock()
		if c.closed {
			f.mu.Unlock()
			return 0, nil, opErr("read", c, errClosed)
		}
		if c.pendErr != nil {
			err := c.pendErr
			c.pendErr = nil
			f.mu.Unlock()
			f.rec(Rec{Kind: "rerr", Sock: c.Label, Err: err.Error()})
			return 0, nil, opErr("read", c, err)
		}
		if len(c.q) > 0 {
			d := c.q[0]
			c.q = c.q[1:]
			f.mu.Unlock()
			n := copy(b, d.data)
			c.LastRef = d.ref
			r := Rec{Kind: "read", Src: d.src.String(), Dst: c.local.String(), Data: d.data[:n], Ref: d.ref, Sock: c.Label}
			if n < len(d.data) {
				r.Full = d.data
			}
			f.rec(r)
			return n, d.src, nil
		}
		if t == nil { // teardown
			f.mu.Unlock()
			return 0, nil, opErr("read", c, errClosed)
		}
		if c.rdl > 0 {
			if s.Now() >= c.rdl {
				f.mu.Unlock()
				return 0, nil, opErr("read", c, timeoutError{})
			}
			s.At(c.rdl-s.Now(), "read-deadline "+c.Label, func() {
				f.mu.Lock()
				rs := c.readers
				c.readers = nil
				f.mu.Unlock()
				for _, r := range rs {
					s.Unblock(r)
				}
			})
		}
		c.readers = append(c.readers, t)
		f.mu.Unlock()
		s.Block(t, "udpread")
	}
}

// ReadFromUDP replaces (*net.UDPConn).ReadFromUDP.
func (c *UDPConn) ReadFromUDP(b []byte) (int, *net.UDPAddr, error) { return c.read(b) }

// ReadFrom replaces (*net.UDPConn).ReadFrom.
func (c *UDPConn) ReadFrom(b []byte) (int, net.Addr, error) {
	n, a, err := c.read(b)
	if a == nil {
		return n, nil, err
	}
	return n, a, err
}

// Read replaces (*net.UDPConn).Read.
func (c *UDPConn) Read(b []byte) (int, error) {
	n, _, err := c.read(b)
	return n, err
}

// Write replaces (*net.UDPConn).Write (connected sockets only).
func (c *UDPConn) Write(b []byte) (int, error) {
	if c.remote == nil {
		return 0, opErr("write", c, errors.New("destination address required"))
	}
	return c.send(b, c.remote)
}

// WriteToUDP replaces (*net.UDPConn).WriteToUDP.
func (c *UDPConn) WriteToUDP(b []byte, addr *net.UDPAddr) (int, error) {
	if c.remote != nil {
		return 0, opErr("write", c, errors.New("use of WriteTo with pre-connected connection"))
	}
	if addr == nil {
		return 0, opErr("write", c, errors.New("missing address"))
	}
	return c.send(b, addr)
}

// WriteTo replaces (*net.UDPConn).WriteTo.
func (c *UDPConn) WriteTo(b []byte, addr net.Addr) (int, error) {
	a, ok := addr.(*net.UDPAddr)
	if !ok {
		return 0, opErr("write", c, errors.New("invalid address"))
	}
	return c.WriteToUDP(b, a)
}

func (c *UDPConn) send(b []byte, dst *net.UDPAddr) (int, error) {
	f := c.f
	if f.s.CurrentID() >= 0 {
		simrt.Yield("netwrite") // a system call is a point at which the scheduler may switch
	}
	f.mu.Lock()
	if c.closed {
		f.mu.Unlock()
		return 0, opErr("write", c, errClosed)
	}
	if c.pendErr != nil {
		err := c.pendErr
		c.pendErr = nil
		f.mu.Unlock()
		f.rec(Rec{Kind: "werr", Src: c.srcAddr().String(), Dst: dst.String(), Data: append([]byte(nil), b...), Sock: c.Label, Err: err.Error()})
		return 0, opErr("write", c, err)
	}
	f.mu.Unlock()
	src := c.srcAddr()
	data := append([]byte(nil), b...)
	l := f.link(src.IP.String(), dst.IP.String())
	var seq0 uint64
	var t0 time.Duration
	var lateReturn time.Duration // the datagram leaves at once, the call returns this much later
	if l.SlowWritePermille > 0 && l.SlowWriteMax > 0 && f.s.CurrentID() >= 0 && f.s.Dec.Chance("net.slowwrite", l.SlowWritePermille) {
		d := time.Duration(1+f.s.Dec.Choose("net.slowwriteamt", 16)) * l.SlowWriteMax / 16
		f.fired("slow-write")
		if l.SlowWriteSlack {
			f.s.AddSlack(d)
		}
		if l.SlowWriteSlack && f.s.Dec.Choose("net.slowwritewhen", 2) == 1 {
			// the other half of the stalls: the kernel has taken the datagram, the caller is kept
			// waiting (descheduled on its way back) - an answer can overtake the return
			lateReturn = d
			f.fired("slow-write-return")
		} else {
			// the call begins now, the datagram leaves (or the call fails) when the stall is over
			r0 := f.rec(Rec{Kind: "wstart", Src: src.String(), Dst: dst.String(), Data: data, Sock: c.Label})
			seq0, t0 = r0.Seq, r0.T
			f.s.SleepFor(d)
		}
	}
	if lateReturn > 0 {
		defer func() { f.s.SleepFor(lateReturn) }()
	}
	if l.WriteErrPermille > 0 && f.s.Dec.Chance("net.werr", l.WriteErrPermille) {
		f.fired("write-error")
		f.rec(Rec{Kind: "werr", Src: src.String(), Dst: dst.String(), Data: data, Sock: c.Label, Err: "no buffer space available", Seq0: seq0, T0: t0})
		return 0, opErr("write", c, errors.New("no buffer space available"))
	}
	r := f.rec(Rec{Kind: "send", Src: src.String(), Dst: dst.String(), Data: data, Sock: c.Label, Seq0: seq0, T0: t0})
	ref := r.Seq
	if f.OnSend != nil {
		f.OnSend(r)
	}
	var delays []time.Duration
	decided := false
	if f.Fate != nil {
		if d := f.Fate(r); d != nil {
			delays = d
			decided = true
		}
	}
	if !decided {
		if l.DropPermille > 0 && f.s.Dec.Chance("net.drop", l.DropPermille) {
			f.fired("drop")
			f.rec(Rec{Kind: "drop", Src: src.String(), Dst: dst.String(), Ref: ref, Sock: c.Label})
		} else {
			delays = append(delays, f.delay(l))
			if l.DupPermille > 0 && f.s.Dec.Chance("net.dup", l.DupPermille) {
				f.fired("dup")
				delays = append(delays, f.delay(l))
			}
		}
	}
	for i, d := range delays {
		cp := i
		f.s.At(d, fmt.Sprintf("deliver#%d.%d", ref, cp), func() { f.deliver(c, ref, cp, src, dst, data) })
	}
	return len(b), nil
}

func (f *Fabric) delay(l Link) time.Duration {
	d := l.DelayMin
	if l.DelayMax > l.DelayMin {
		steps := 16
		d += time.Duration(f.s.Dec.Choose("net.delay", steps+1)) * (l.DelayMax - l.DelayMin) / time.Duration(steps)
		if d > l.DelayMin {
			f.fired("delay")
		}
	}
	if l.LatePermille > 0 && l.LateExtra > 0 && f.s.Dec.Chance("net.late", l.LatePermille) {
		f.fired("late-beyond-resend")
		d += time.Duration(1+f.s.Dec.Choose("net.lateamt", 8)) * l.LateExtra / 8
	}
	return d
}

// Inject puts a datagram on the wire as if src had sent it (adversarial peers).
func (f *Fabric) Inject(src, dst *net.UDPAddr, data []byte, delay time.Duration) {
	d := append([]byte(nil), data...)
	r := f.rec(Rec{Kind: "send", Src: src.String(), Dst: dst.String(), Data: d, Sock: "inject"})
	ref := r.Seq
	f.s.At(delay, fmt.Sprintf("deliver#%d.0", ref), func() { f.deliver(nil, ref, 0, src, dst, d) })
}

func (f *Fabric) deliver(from *UDPConn, ref uint64, cp int, src, dst *net.UDPAddr, data []byte) {
	f.mu.Lock()
	var targets []*UDPConn
	for _, c := range f.socks {
		if c.closed || c.local.Port != dst.Port {
			continue
		}
		if dst.IP.IsMulticast() {
			member := false
			for _, g := range c.groups {
				if g.Equal(dst.IP) {
					member = true
				}
			}
			if !member {
				continue
			}
			if from != nil && c.host == from.host && !from.loop {
				continue
			}
		} else {
			if c.host != dst.IP.String() && !c.local.IP.Equal(dst.IP) {
				continue
			}
			if c.local.IP.IsMulticast() {
				continue
			}
		}
		targets = append(targets, c)
	}
	f.mu.Unlock()
	if len(targets) == 0 {
		f.rec(Rec{Kind: "noroute", Src: src.String(), Dst: dst.String(), Ref: ref, Copy: cp})
		return
	}
	for _, c := range targets {
		if c.remote != nil && (!c.remote.IP.Equal(src.IP) || c.remote.Port != src.Port) {
			// a connected socket only sees its peer
			f.rec(Rec{Kind: "filtered", Src: src.String(), Dst: dst.String(), Ref: ref, Sock: c.Label, Copy: cp})
			continue
		}
		r := Rec{Kind: "arrive", Src: src.String(), Dst: dst.String(), Data: data, Ref: ref, Sock: c.Label, Copy: cp}
		if f.DeliverFilter != nil && !f.DeliverFilter(&r) {
			f.fired("guard-drop")
			r.Kind = "guarddrop"
			r.Data = nil
			f.rec(r)
			continue
		}
		f.mu.Lock()
		full := len(c.q) >= f.cfg.RcvBuf
		small := false
		if c.rcvBytes > 0 && !full {
			used := 0
			for _, d := range c.q {
				used += len(d.data) + 512
			}
			small = used+len(data)+512 > c.rcvBytes
			full = small
		}
		if full {
			f.mu.Unlock()
			f.fired("rcvbuf-overflow")
			r.Kind = "overflow"
			r.Data = nil
			if small {
				// lost to a receive buffer the application itself asked to be this small: the
				// datagram stays in the record, an oracle may hold the application to it
				r.Data, r.Err = data, "SetReadBuffer"
			}
			f.rec(r)
			continue
		}
		c.q = append(c.q, dgram{ref: ref, src: src, data: data})
		rs := c.readers
		c.readers = nil
		f.mu.Unlock()
		f.rec(r)
		for _, t := range rs {
			f.s.Unblock(t)
		}
	}
}

// PacketConn replaces *ipv4.PacketConn for the three calls the library makes.
type PacketConn struct{ c *UDPConn }

// NewPacketConn replaces ipv4.NewPacketConn.
func NewPacketConn(c *UDPConn) *PacketConn { return &PacketConn{c} }

// JoinGroup replaces (*ipv4.PacketConn).JoinGroup.
func (p *PacketConn) JoinGroup(ifi *net.Interface, group net.Addr) error {
	var ip net.IP
	switch g := group.(type) {
	case *net.UDPAddr:
		ip = g.IP
	case *net.IPAddr:
		ip = g.IP
	}
	if ip == nil || !ip.IsMulticast() {
		return errors.New("invalid argument")
	}
	p.c.f.mu.Lock()
	p.c.groups = append(p.c.groups, ip)
	p.c.f.mu.Unlock()
	return nil
}

// LeaveGroup replaces (*ipv4.PacketConn).LeaveGroup.
func (p *PacketConn) LeaveGroup(ifi *net.Interface, group net.Addr) error { return nil }

// MulticastLoopback replaces (*ipv4.PacketConn).MulticastLoopback.
func (p *PacketConn) MulticastLoopback() (bool, error) { return p.c.loop, nil }

// SetMulticastLoopback replaces (*ipv4.PacketConn).SetMulticastLoopback.
func (p *PacketConn) SetMulticastLoopback(on bool) error {
	p.c.f.mu.Lock()
	p.c.loop = on
	p.c.f.mu.Unlock()
	return nil
}

// SetMulticastInterface replaces (*ipv4.PacketConn).SetMulticastInterface.
func (p *PacketConn) SetMulticastInterface(*net.Interface) error { return nil }

// SetMulticastTTL replaces (*ipv4.PacketConn).SetMulticastTTL.
func (p *PacketConn) SetMulticastTTL(int) error { return nil }

// JoinGroupIP lets harness actors join a group directly.
func (c *UDPConn) JoinGroupIP(ip net.IP) {
	c.f.mu.Lock()
	c.groups = append(c.groups, ip)
	c.f.mu.Unlock()
}

// ---------------------------------------------------------------------------------------
// TCP

// TCPListener accepts simulated connections (harness side only).
type TCPListener struct {
	f       *Fabric
	addr    *net.TCPAddr
	backlog []*TCPConn
	waiters []*simrt.Task
	closed  bool
}

// ListenTCPOn opens a listener for harness actors.
func (f *Fabric) ListenTCPOn(host string, port int) *TCPListener {
	l := &TCPListener{f: f, addr: &net.TCPAddr{IP: net.ParseIP(host).To4(), Port: port}}
	f.mu.Lock()
	f.lis[l.addr.String()] = l
	f.mu.Unlock()
	return l
}

// Accept blocks until a connection arrives.
func (l *TCPListener) Accept() (*TCPConn, error) {
	f := l.f
	t := f.s.Me()
	for {
		f.mu.Lock()
		if len(l.backlog) > 0 {
			c := l.backlog[0]
			l.backlog = l.backlog[1:]
			f.mu.Unlock()
			return c, nil
		}
		if l.closed || t == nil {
			f.mu.Unlock()
			return nil, errClosed
		}
		l.waiters = append(l.waiters, t)
		f.mu.Unlock()
		f.s.Block(t, "accept")
	}
}

// Close stops listening.
func (l *TCPListener) Close() {
	f := l.f
	f.mu.Lock()
	l.closed = true
	delete(f.lis, l.addr.String())
	ws := l.waiters
	l.waiters = nil
	f.mu.Unlock()
	for _, w := range ws {
		f.s.Unblock(w)
	}
}

// TCPConn is one end of a simulated TCP connection.
type TCPConn struct {
	f        *Fabric
	Label    string
	local    *net.TCPAddr
	remote   *net.TCPAddr
	peer     *TCPConn
	rx       []byte
	rxEOF    bool
	rxErr    error
	closed   bool
	readers  []*simrt.Task
	rdl      time.Duration // read deadline in simulated time (0 = none)
	wdl      time.Duration // write deadline in simulated time (0 = none)
	SndBuf   int           // >0: octets this side may have outstanding (in flight or unread at the peer); a Write beyond that blocks
	writers  []*simrt.Task
	wlocked  bool          // a Write with a send-buffer limit is under way
	wwait    []*simrt.Task // Writes waiting for it to end
	lastArr  time.Duration // arrival time of the last scheduled segment towards the peer (keeps order)
	inFlight [][]byte      // segments (nil = FIN) on their way to the peer, in stream order
	linger0  bool          // SetLinger(0): Close discards what has not reached the peer and resets the connection
	Lib      bool
	// Segments, when non-nil, is consulted by the sender side of a harness connection to cut
	// its writes: it returns the sizes of the segments the next write is split into.
	Cutter func(n int) []int
}

// DialTCP replaces net.DialTCP.
func DialTCP(network string, laddr, raddr *net.TCPAddr) (*TCPConn, error) {
	f := curFab
	if f == nil {
		return nil, errors.New("simnet: no fabric")
	}
	if raddr == nil {
		return nil, &net.OpError{Op: "dial", Net: network, Err: errors.New("missing address")}
	}
	host := f.hostOfCurrent()
	f.mu.Lock()
	l := f.lis[raddr.String()]
	if l == nil || l.closed {
		f.mu.Unlock()
		return nil, &net.OpError{Op: "dial", Net: network, Addr: raddr, Err: errors.New("connection refused")}
	}
	f.port++
	local := &net.TCPAddr{IP: net.ParseIP(host).To4(), Port: f.port}
	a := &TCPConn{f: f, local: local, remote: raddr, Lib: true}
	b := &TCPConn{f: f, local: raddr, remote: local}
	a.peer, b.peer = b, a
	a.Label = fmt.Sprintf("tcp:%s>%s", local, raddr)
	b.Label = fmt.Sprintf("tcp:%s>%s", raddr, local)
	f.tcps = append(f.tcps, a, b)
	l.backlog = append(l.backlog, b)
	ws := l.waiters
	l.waiters = nil
	f.mu.Unlock()
	f.s.Logf("net open %s", a.Label)
	for _, w := range ws {
		f.s.Unblock(w)
	}
	return a, nil
}

func (c *TCPConn) LocalAddr() net.Addr                          { return c.local }
func (c *TCPConn) RemoteAddr() net.Addr                         { return c.remote }
func (c *TCPConn) SetReadBuffer(int) error                      { return nil }
func (c *TCPConn) SetWriteBuffer(int) error                     { return nil }
func (c *TCPConn) SetKeepAlivePeriod(time.Duration) error       { return nil }
func (c *TCPConn) SetKeepAliveConfig(net.KeepAliveConfig) error { return nil }
func (c *TCPConn) CloseRead() error                             { return nil }
func (c *TCPConn) SetDeadline(t time.Time) error {
	c.SetWriteDeadline(t)
	return c.SetReadDeadline(t)
}
func (c *TCPConn) SetReadDeadline(t time.Time) error {
	c.f.mu.Lock()
	c.rdl = deadlineOf(t)
	c.wakeReaders()
	c.f.mu.Unlock()
	return nil
}

// SetWriteDeadline matters only on a connection with a send buffer limit (SndBuf): a Write that
// is blocked because the peer does not read fails with a timeout when the deadline passes - after
// whatever part of its data had room.
func (c *TCPConn) SetWriteDeadline(t time.Time) error {
	c.f.mu.Lock()
	c.wdl = deadlineOf(t)
	ws := c.writers
	c.writers = nil
	c.f.mu.Unlock()
	for _, w := range ws {
		c.f.s.Unblock(w)
	}
	return nil
}
func (c *TCPConn) SetNoDelay(bool) error   { return nil }
func (c *TCPConn) SetKeepAlive(bool) error { return nil }

// Peer is the other end of the connection (harness actors use it to shape what the library's end may do).
func (c *TCPConn) Peer() *TCPConn { return c.peer }

func tcpErr(op string, c *TCPConn, err error) error {
	return &net.OpError{Op: op, Net: "tcp", Source: c.local, Addr: c.remote, Err: err}
}

// Read replaces (*net.TCPConn).Read.
func (c *TCPConn) Read(b []byte) (int, error) {
	f := c.f
	t := f.s.Me()
	if len(b) == 0 {
		return 0, nil
	}
	for {
		f.mu.Lock()
		if c.closed {
			f.mu.Unlock()
			return 0, tcpErr("read", c, errClosed)
		}
		if len(c.rx) > 0 {
			n := len(c.rx)
			if n > len(b) {
				n = len(b)
			}
			f.mu.Unlock()
			if f.cfg.TCPCut && n > 1 {
				k := f.s.Dec.Choose("tcp.cut", n) // 0 = everything available
				if k > 0 {
					n = k
					f.fired("tcp-cut")
				}
			}
			f.mu.Lock()
			copy(b, c.rx[:n])
			data := append([]byte(nil), c.rx[:n]...)
			c.rx = c.rx[n:]
			var ws []*simrt.Task
			if c.peer != nil {
				ws, c.peer.writers = c.peer.writers, nil // room in the sender's window
			}
			f.mu.Unlock()
			for _, w := range ws {
				f.s.Unblock(w)
			}
			f.rec(Rec{Kind: "tcpread", Sock: c.Label, Data: data})
			return n, nil
		}
		if c.rxErr != nil {
			err := c.rxErr
			f.mu.Unlock()
			return 0, tcpErr("read", c, err)
		}
		if c.rxEOF {
			f.mu.Unlock()
			return 0, io.EOF
		}
		if t == nil {
			f.mu.Unlock()
			return 0, tcpErr("read", c, errClosed)
		}
		if c.rdl > 0 {
			if f.s.Now() >= c.rdl {
				f.mu.Unlock()
				return 0, tcpErr("read", c, timeoutError{})
			}
			f.s.At(c.rdl-f.s.Now(), "read-deadline "+c.Label, func() {
				f.mu.Lock()
				c.wakeReaders()
				f.mu.Unlock()
			})
		}
		c.readers = append(c.readers, t)
		f.mu.Unlock()
		f.s.Block(t, "tcpread")
	}
}

func (c *TCPConn) wakeReaders() {
	rs := c.readers
	c.readers = nil
	for _, r := range rs {
		c.f.s.Unblock(r)
	}
}

// Write replaces (*net.TCPConn).Write.
func (c *TCPConn) Write(b []byte) (int, error) {
	f := c.f
	if f.s.CurrentID() >= 0 {
		simrt.Yield("netwrite")
	}
	f.mu.Lock()
	if c.closed {
		f.mu.Unlock()
		return 0, tcpErr("write", c, errClosed)
	}
	if c.rxErr != nil { // connection was reset
		err := c.rxErr
		f.mu.Unlock()
		return 0, tcpErr("write", c, err)
	}
	peer := c.peer
	f.mu.Unlock()
	data := append([]byte(nil), b...)
	if c.SndBuf > 0 {
		return c.writeLimited(data)
	}
	f.rec(Rec{Kind: "tcpwrite", Sock: c.Label, Src: c.local.String(), Dst: c.remote.String(), Data: data})
	sizes := []int{len(data)}
	if c.Cutter != nil {
		sizes = c.Cutter(len(data))
	}
	l := f.link(c.local.IP.String(), c.remote.IP.String())
	off := 0
	for _, n := range sizes {
		if n <= 0 || off >= len(data) {
			continue
		}
		if off+n > len(data) {
			n = len(data) - off
		}
		seg := data[off : off+n]
		off += n
		d := f.delay(l)
		now := f.s.Now()
		arr := now + d
		f.mu.Lock()
		if arr < c.lastArr {
			arr = c.lastArr // a byte stream never reorders
		}
		c.lastArr = arr
		f.mu.Unlock()
		f.mu.Lock()
		c.inFlight = append(c.inFlight, seg)
		f.mu.Unlock()
		f.s.At(arr-now, "tcpseg>"+peer.Label, func() { c.arriveNext() })
	}
	return len(b), nil
}

// writeLimited is Write on a connection with a send buffer limit: data goes out as room becomes
// available (the peer reading makes room); when the write deadline passes first, the call returns
// what it had written so far and a timeout error - a partial write, as a kernel does it.
func (c *TCPConn) writeLimited(data []byte) (int, error) {
	f := c.f
	peer := c.peer
	t := f.s.Me()
	l := f.link(c.local.IP.String(), c.remote.IP.String())
	written := 0
	// one Write at a time, from its first octet to its last (or to its error): the runtime holds the
	// descriptor's write lock across the whole call, waiting for room included
	for {
		f.mu.Lock()
		if !c.wlocked || t == nil {
			c.wlocked = true
			f.mu.Unlock()
			break
		}
		c.wwait = append(c.wwait, t)
		f.mu.Unlock()
		f.s.Block(t, "tcpwritelock")
	}
	finish := func(err error) (int, error) {
		f.mu.Lock()
		c.wlocked = false
		ww := c.wwait
		c.wwait = nil
		f.mu.Unlock()
		for _, w := range ww {
			f.s.Unblock(w)
		}
		f.rec(Rec{Kind: "tcpwrite", Sock: c.Label, Src: c.local.String(), Dst: c.remote.String(), Data: data[:written]})
		if err != nil {
			return written, tcpErr("write", c, err)
		}
		return written, nil
	}
	for written < len(data) {
		f.mu.Lock()
		if c.closed {
			f.mu.Unlock()
			return finish(errClosed)
		}
		out := len(peer.rx)
		for _, seg := range c.inFlight {
			out += len(seg)
		}
		room := c.SndBuf - out
		if room > 0 {
			n := len(data) - written
			if n > room {
				n = room
			}
			seg := data[written : written+n]
			written += n
			d := f.delay(l)
			now := f.s.Now()
			arr := now + d
			if arr < c.lastArr {
				arr = c.lastArr
			}
			c.lastArr = arr
			c.inFlight = append(c.inFlight, seg)
			f.mu.Unlock()
			f.s.At(arr-now, "tcpseg>"+peer.Label, func() { c.arriveNext() })
			continue
		}
		if t == nil {
			f.mu.Unlock()
			return finish(errClosed)
		}
		if c.wdl > 0 {
			if f.s.Now() >= c.wdl {
				f.mu.Unlock()
				f.fired("tcp-write-timeout")
				return finish(timeoutError{})
			}
			f.s.At(c.wdl-f.s.Now(), "write-deadline "+c.Label, func() {
				f.mu.Lock()
				ws := c.writers
				c.writers = nil
				f.mu.Unlock()
				for _, w := range ws {
					f.s.Unblock(w)
				}
			})
		}
		f.fired("tcp-write-blocked")
		c.writers = append(c.writers, t)
		f.mu.Unlock()
		f.s.Block(t, "tcpwrite")
	}
	return finish(nil)
}

// arriveNext delivers the oldest segment in flight to the peer. Arrival events of one direction
// are scheduled at non-decreasing times; which of several same-instant events fires first is a
// scheduler decision, so each event delivers the head of the queue: a byte stream never reorders.
func (c *TCPConn) arriveNext() {
	f := c.f
	peer := c.peer
	f.mu.Lock()
	if len(c.inFlight) == 0 {
		f.mu.Unlock()
		return
	}
	seg := c.inFlight[0]
	c.inFlight = c.inFlight[1:]
	if seg == nil {
		peer.rxEOF = true
		peer.wakeReaders()
		f.mu.Unlock()
		return
	}
	if peer.closed || peer.rxErr != nil {
		f.mu.Unlock()
		return
	}
	peer.rx = append(peer.rx, seg...)
	f.mu.Unlock()
	f.s.Logf("net tcparrive %s %x", peer.Label, seg)
	f.mu.Lock()
	peer.wakeReaders()
	f.mu.Unlock()
}

// Close replaces (*net.TCPConn).Close: the peer reads EOF after the data in flight.
func (c *TCPConn) Close() error {
	f := c.f
	f.mu.Lock()
	if c.closed {
		f.mu.Unlock()
		return tcpErr("close", c, errClosed)
	}
	c.closed = true
	c.wakeReaders()
	// (Writes of this connection that wait for room, or for their turn, end with an error)
	own := append(c.writers, c.wwait...)
	c.writers, c.wwait = nil, nil
	for _, w := range own {
		f.s.Unblock(w)
	}
	peer := c.peer
	if c.linger0 {
		// an abortive close: nothing that is still on its way arrives; the peer may read what it has
		// got and finds the connection reset after that
		lost := 0
		for _, seg := range c.inFlight {
			lost += len(seg)
		}
		c.inFlight = nil
		if peer.rxErr == nil {
			peer.rxErr = errors.New("connection reset by peer")
		}
		peer.wakeReaders()
		ws := peer.writers
		peer.writers = nil
		f.mu.Unlock()
		for _, w := range ws {
			f.s.Unblock(w)
		}
		f.fired("tcp-linger0-close")
		f.s.Logf("net close %s (linger 0: reset, %d octets in flight discarded)", c.Label, lost)
		return nil
	}
	now := f.s.Now()
	d := c.lastArr - now
	if d < 0 {
		d = 0
	}
	f.mu.Unlock()
	f.s.Logf("net close %s", c.Label)
	f.mu.Lock()
	c.inFlight = append(c.inFlight, nil)
	f.mu.Unlock()
	f.s.At(d, "tcpfin>"+peer.Label, func() { c.arriveNext() })
	return nil
}

// Reset aborts the connection: the peer's pending data is discarded and its reads and writes
// fail with "connection reset by peer".
func (c *TCPConn) Reset() {
	f := c.f
	f.mu.Lock()
	c.closed = true
	c.wakeReaders()
	peer := c.peer
	peer.rx = nil
	peer.rxErr = errors.New("connection reset by peer")
	peer.wakeReaders()
	f.fired("tcp-rst")
	f.mu.Unlock()
	f.s.Logf("net reset %s", c.Label)
}

// SetLinger replaces (*net.TCPConn).SetLinger: with 0 seconds Close becomes abortive (unsent data is
// discarded and the peer sees a reset); any other value leaves the orderly close in place.
func (c *TCPConn) SetLinger(sec int) error {
	c.f.mu.Lock()
	c.linger0 = sec == 0
	c.f.mu.Unlock()
	return nil
}

// CloseWrite half-closes the connection.
func (c *TCPConn) CloseWrite() error { return nil }
