package sim

import (
	"fmt"
	"net"
	"time"

	"github.com/vapourismo/knx-go/knx/simnet"
)

// Stamp is a point of a run: simulated time and global event sequence number.
type Stamp struct {
	T   time.Duration
	Seq uint64
}

func (e *Env) Stamp() Stamp {
	t, q := e.S.Stamp()
	return Stamp{t, q}
}

// GwEpoch is one connection as the gateway sees it.
type GwEpoch struct {
	Channel  uint8
	ExpIn    uint8 // next sequence number expected from the client
	OutSeq   uint8 // sequence number of the next request to the client
	Start    Stamp
	End      Stamp
	Dead     bool
	Touched  bool   // the client has used this channel
	TouchRef uint64 // wire-log number of the earliest-sent client frame seen on this channel
	GwSent   bool   // the gateway itself has transmitted telegrams on this channel
	ConnRes  []byte
	LastSt   uint8 // status of the acknowledgement of the request accepted last (a repetition gets it again)
}

// BusEntry is a telegram the gateway forwarded to the bus.
type BusEntry struct {
	ID      int
	Raw     []byte // the cEMI frame as it came in
	Channel uint8
	Seq     uint8
	At      Stamp
}

// GwOut is one telegram the gateway sent (or tried to send) to the client.
type GwOut struct {
	ID       int
	Channel  uint8
	Seq      uint8
	FirstTx  Stamp
	Attempts int
	Acked    bool
	AckAt    Stamp
	GaveUp   bool
}

type connAction struct {
	kind   string // "ok", "status", "lost"
	status uint8
}

// Gateway is the rule-following KNXnet/IP tunnelling server stub (DESIGN.md §3). It accepts the
// expected sequence number, re-acknowledges the previous one, ignores others, repeats its own
// unacknowledged requests and answers connection-state and disconnect requests. Every deviation
// from the rules is an explicit, counted fault switched on by the scenario's fault director.
type Gateway struct {
	e    *Env
	sock *simnet.UDPConn
	addr *net.UDPAddr
	peer *net.UDPAddr // where the client's datagrams come from

	Epochs   []*GwEpoch
	cur      *GwEpoch
	nextChan uint8

	Bus     []BusEntry
	Outs    []*GwOut
	outQ    []int
	pend    []*GwOut // transmitted, not yet acknowledged (at most Window)
	Window  int      // 1 = stop-and-wait as the tunnelling rules demand; >1 = a server that bursts
	nextOut uint8    // sequence number of the next new request

	ReuseChannel bool
	tcp          *simnet.TCPConn   // non-nil: the connection runs over a TCP stream (no acknowledgements, no sequence numbers)
	RawOf        map[int][]byte    // telegram id -> cEMI bytes to transmit instead of the id frame
	OnBus        func(cemi []byte) // called for every telegram accepted from the client
	TCPCutter    func(n int) []int // how each of the gateway's writes is cut into TCP segments (nil: one segment)
	Busmon       bool              // telegrams for the client are bus monitor indications (the connection is a bus monitor tunnel)
	InfoLen      func(id int) int  // additional-information octets telegram id carries (nil: none)

	// behaviour knobs
	Silent         bool          // answers nothing at all
	NoAck          bool          // does not acknowledge tunnelling requests (but forwards them)
	StateStatus    uint8         // status of connection-state responses on the live channel
	StateSilent    bool          // does not answer connection-state requests
	ConnScript     []connAction  // consumed per received connect request; exhausted = ok
	OutResend      time.Duration // repeat interval of own requests
	OutAttempts    int           // transmissions before giving up
	DiscOnGiveUp   bool          // (always true: kept for the record of what "rule-following" means)
	AckStatus      uint8         // status put into acknowledgements (0 = OK)
	AckStatusOnce  bool
	RefusePermille int           // odds of refusing an in-sequence telegram (error status in the acknowledgement, nothing on the bus)
	DupAckThenDisc time.Duration // >0, one-shot: the next acknowledgement is sent twice and the connection ended this long afterwards
	StaleAfter     int           // >0: counts acknowledged requests down; at 0 the same happens at once, with StaleExtra further acknowledgements (numbers 0..) nobody waits for
	StaleExtra     int

	ConnReqs    []Stamp
	StateReqs   []Stamp
	DiscReqs    []Stamp
	DiscResSeen []Stamp
}

func newGateway(e *Env, ip string, port int) *Gateway {
	g := &Gateway{e: e, OutResend: time.Second, OutAttempts: 2, DiscOnGiveUp: true, Window: 1}
	g.sock = e.F.ListenUDPOn(ip, port)
	g.addr = &net.UDPAddr{IP: net.ParseIP(ip).To4(), Port: port}
	g.nextChan = uint8(e.Choose("cfg.chan0", 256))
	return g
}

func (g *Gateway) hpai() []byte {
	ip := g.addr.IP.To4()
	return mkHPAI(1, [4]byte{ip[0], ip[1], ip[2], ip[3]}, uint16(g.addr.Port))
}

// newTCPGateway listens on a TCP port; StartTCP accepts one connection and serves it.
func newTCPGateway(e *Env, ip string, port int) (*Gateway, *simnet.TCPListener) {
	g := &Gateway{e: e, OutResend: time.Second, OutAttempts: 2, DiscOnGiveUp: true, Window: 1}
	g.addr = &net.UDPAddr{IP: net.ParseIP(ip).To4(), Port: port}
	g.nextChan = uint8(e.Choose("cfg.chan0", 256))
	return g, e.F.ListenTCPOn(ip, port)
}

// StartTCP serves the accepted connection: frames are cut out of the byte stream by their
// header's total length.
func (g *Gateway) StartTCP(lis *simnet.TCPListener) {
	g.e.S.Spawn("gateway", func() {
		c, err := lis.Accept()
		if err != nil {
			return
		}
		g.tcp = c
		c.Cutter = g.TCPCutter
		var stream []byte
		buf := make([]byte, 4096)
		for {
			n, err := c.Read(buf)
			if err != nil {
				return
			}
			stream = append(stream, buf[:n]...)
			for len(stream) >= 6 {
				tl := int(stream[4])<<8 | int(stream[5])
				if tl < 6 {
					return
				}
				if len(stream) < tl {
					break
				}
				g.handle(append([]byte(nil), stream[:tl]...), nil, 0)
				stream = stream[tl:]
			}
		}
	})
}

// Start launches the gateway's receive task.
func (g *Gateway) Start() {
	g.e.S.Spawn("gateway", func() {
		buf := make([]byte, 2048)
		for {
			n, from, err := g.sock.ReadFromUDP(buf)
			if err != nil {
				return
			}
			g.handle(append([]byte(nil), buf[:n]...), from, g.sock.LastRef)
		}
	})
}

func (g *Gateway) send(b []byte) {
	if g.tcp != nil {
		g.tcp.Write(b)
		return
	}
	if g.peer == nil {
		return
	}
	g.sock.WriteToUDP(b, g.peer)
}

// SendRaw lets the fault director emit an arbitrary frame from the gateway's address.
func (g *Gateway) SendRaw(b []byte) { g.send(b) }

// Cur returns the live epoch or nil.
func (g *Gateway) Cur() *GwEpoch { return g.cur }

func (g *Gateway) newEpoch() *GwEpoch {
	if g.cur != nil {
		g.killEpoch("superseded")
	}
	ep := &GwEpoch{Channel: g.nextChan, Start: g.e.Stamp()}
	if g.ReuseChannel && len(g.Epochs) > 0 {
		ep.Channel = g.Epochs[len(g.Epochs)-1].Channel // many servers hand out the lowest free id again
	} else {
		g.nextChan++
	}
	g.nextOut = 0
	ep.ConnRes = mkConnRes(ep.Channel, 0, g.hpai())
	g.Epochs = append(g.Epochs, ep)
	g.cur = ep
	g.e.S.Logf("gw epoch ch=%d", ep.Channel)
	return ep
}

func (g *Gateway) killEpoch(why string) {
	if g.cur == nil {
		return
	}
	g.cur.Dead = true
	g.cur.End = g.e.Stamp()
	g.e.S.Logf("gw epoch ch=%d dead: %s", g.cur.Channel, why)
	g.cur = nil
	g.pend = nil
	g.outQ = nil
}

// freshChannel returns a channel id that no epoch of this run has used or will use soon.
func (g *Gateway) freshChannel() uint8 {
	ch := g.nextChan
	g.nextChan++
	return ch
}

// Restart models a gateway reboot: the connection is forgotten without a word.
func (g *Gateway) Restart() {
	g.killEpoch("restart")
	g.e.Fault("gateway-restart")
}

// Disconnect makes the gateway end the connection with a disconnect request.
func (g *Gateway) Disconnect() {
	if g.cur == nil {
		return
	}
	ch := g.cur.Channel
	g.killEpoch("gateway disconnects")
	g.send(mkDiscReq(ch, g.hpai()))
	g.e.Fault("disconnect-request")
}

func (g *Gateway) handle(raw []byte, from *net.UDPAddr, ref uint64) {
	f := parseFrame(raw)
	if !f.OK {
		g.e.S.Logf("gw malformed %x", raw)
		return
	}
	if g.Silent {
		g.e.Fault("gateway-silent-drop")
		return
	}
	if g.cur != nil && f.Svc != svcConnReq && f.Svc != svcConnRes && len(f.Body) >= 2 {
		ch := f.Channel
		if ch == g.cur.Channel && ref != 0 && (!g.cur.Touched || ref < g.cur.TouchRef) {
			g.cur.Touched, g.cur.TouchRef = true, ref
		}
	}
	switch f.Svc {
	case svcConnReq:
		g.peer = from
		if g.cur != nil && ref != 0 && (ref < g.cur.Start.Seq || g.cur.Touched && ref < g.cur.TouchRef) {
			// A copy of a connect request that the client sent before it started to use this
			// connection (a delayed retransmission of the request that created it). A server
			// cannot tell it from a new request and would open a second connection next to the
			// first; this stub keeps a single connection and lets the network lose the stale copy.
			g.e.Fault("stale-connect-request-dropped")
			return
		}
		g.ConnReqs = append(g.ConnReqs, g.e.Stamp())
		act := connAction{kind: "ok"}
		if len(g.ConnScript) > 0 {
			act = g.ConnScript[0]
			g.ConnScript = g.ConnScript[1:]
		}
		switch act.kind {
		case "lost":
			g.e.Fault("connect-lost")
		case "status":
			if act.status == 0x24 || act.status == 0x25 {
				g.e.Fault("connect-busy")
			} else {
				g.e.Fault("connect-refused")
			}
			g.send(mkConnRes(0, act.status, nil))
		default:
			if g.cur != nil && !g.cur.Touched && !g.cur.GwSent {
				// retransmitted connect request for a connection nobody used yet: same answer
				// (once the gateway has sent telegrams on it, its own counters have moved and a
				// connect request can only mean a new connection)
				g.send(g.cur.ConnRes)
				return
			}
			ep := g.newEpoch()
			g.send(ep.ConnRes)
		}
	case svcConnStateReq:
		g.StateReqs = append(g.StateReqs, g.e.Stamp())
		if g.StateSilent {
			g.e.Fault("heartbeat-unanswered")
			return
		}
		if g.cur != nil && f.Channel == g.cur.Channel {
			if g.StateStatus != 0 {
				g.e.Fault("gateway-error-status")
			}
			g.send(mkConnStateRes(f.Channel, g.StateStatus))
		} else {
			g.send(mkConnStateRes(f.Channel, 0x21)) // E_CONNECTION_ID
		}
	case svcDiscReq:
		g.DiscReqs = append(g.DiscReqs, g.e.Stamp())
		if g.cur != nil && f.Channel == g.cur.Channel {
			g.killEpoch("client disconnected")
			g.send(mkDiscRes(f.Channel, 0))
		} else {
			g.send(mkDiscRes(f.Channel, 0x21))
		}
	case svcDiscRes:
		g.DiscResSeen = append(g.DiscResSeen, g.e.Stamp())
	case svcTunnelReq:
		ep := g.cur
		if ep == nil || f.Channel != ep.Channel {
			return // unknown connection: ignored (a real server answers nothing useful either)
		}
		if g.tcp != nil {
			// a TCP connection carries no acknowledgements and no sequence numbers
			g.Bus = append(g.Bus, BusEntry{ID: cemiID(f.CEMI), Raw: append([]byte(nil), f.CEMI...), Channel: f.Channel, Seq: f.Seq, At: g.e.Stamp()})
			if g.OnBus != nil {
				g.OnBus(append([]byte(nil), f.CEMI...))
			}
			return
		}
		st := uint8(0)
		switch f.Seq {
		case ep.ExpIn:
			ep.ExpIn++
			st = g.AckStatus
			if st != 0 {
				g.e.Fault("ack-error-status")
				if g.AckStatusOnce {
					g.AckStatus = 0
				}
			} else if g.RefusePermille > 0 && g.e.Chance("flt.refuse", g.RefusePermille) {
				st = []uint8{0x29, 0x21, 0x04}[g.e.Choose("flt.refusest", 3)]
				g.e.Fault("ack-error-status")
			}
			ep.LastSt = st
			if st != 0 {
				// refused: the number is used up, the telegram goes nowhere, the acknowledgement says why
				g.e.S.Logf("gw refuses id=%d seq=%d status=%#x", cemiID(f.CEMI), f.Seq, st)
				g.e.Probe("gw-refused-a-telegram")
				break
			}
			g.Bus = append(g.Bus, BusEntry{ID: cemiID(f.CEMI), Raw: append([]byte(nil), f.CEMI...), Channel: f.Channel, Seq: f.Seq, At: g.e.Stamp()})
			g.e.S.Logf("gw bus id=%d seq=%d", cemiID(f.CEMI), f.Seq)
			if g.OnBus != nil {
				g.OnBus(append([]byte(nil), f.CEMI...))
			}
		case ep.ExpIn - 1:
			g.e.Probe("gw-duplicate-reacknowledged")
			st = ep.LastSt
		default:
			g.e.Probe("gw-out-of-sequence-ignored")
			return
		}
		if g.NoAck {
			g.e.Fault("gateway-noack")
			return
		}
		g.send(mkTunnelRes(f.Channel, f.Seq, st))
		fire, d := g.DupAckThenDisc > 0, g.DupAckThenDisc
		if g.StaleAfter > 0 {
			if g.StaleAfter--; g.StaleAfter == 0 {
				fire = true
			}
		}
		if fire {
			// copies of acknowledgements are still on offer inside the client when the
			// connection is replaced
			g.DupAckThenDisc = 0
			g.e.Fault("ack-duplicate-then-disconnect")
			g.send(mkTunnelRes(f.Channel, f.Seq, st))
			for q := 0; q < g.StaleExtra; q++ {
				g.send(mkTunnelRes(f.Channel, uint8(q), 0))
			}
			if d == 0 {
				g.Disconnect()
			} else {
				g.e.S.Spawn("gw-late-disconnect", func() {
					g.e.S.SleepFor(d)
					if g.cur == ep {
						g.Disconnect()
					}
				})
			}
		}
	case svcTunnelRes:
		ep := g.cur
		if ep == nil || f.Channel != ep.Channel {
			return
		}
		for i, o := range g.pend {
			if o.Seq != f.Seq {
				continue
			}
			o.Acked = true
			o.AckAt = g.e.Stamp()
			g.e.S.Logf("gw acked id=%d seq=%d st=%d", o.ID, f.Seq, f.Status)
			g.pend = append(g.pend[:i:i], g.pend[i+1:]...)
			ep.OutSeq++
			g.kick()
			break
		}
	}
}

// Push queues a telegram from the bus for the client.
func (g *Gateway) Push(id int) {
	if g.cur == nil {
		return
	}
	g.outQ = append(g.outQ, id)
	g.kick()
}

// QueueLen is the number of telegrams not yet transmitted.
func (g *Gateway) QueueLen() int { return len(g.outQ) }

// Idle reports whether the gateway has nothing outstanding towards the client.
func (g *Gateway) Idle() bool { return len(g.pend) == 0 && len(g.outQ) == 0 }

func (g *Gateway) kick() {
	for len(g.pend) < g.Window && len(g.outQ) > 0 && g.cur != nil {
		id := g.outQ[0]
		g.outQ = g.outQ[1:]
		o := &GwOut{ID: id, Channel: g.cur.Channel, Seq: g.nextOut}
		g.nextOut++
		g.Outs = append(g.Outs, o)
		g.pend = append(g.pend, o)
		g.transmit(o)
	}
}

func (g *Gateway) isPending(o *GwOut) bool {
	for _, p := range g.pend {
		if p == o {
			return true
		}
	}
	return false
}

func (g *Gateway) transmit(o *GwOut) {
	if o.Attempts == 0 {
		o.FirstTx = g.e.Stamp()
	}
	o.Attempts++
	if g.cur != nil && g.cur.Channel == o.Channel {
		g.cur.GwSent = true
	}
	c := idCEMI(0x29, o.ID)
	if g.InfoLen != nil {
		if n := g.InfoLen(o.ID); n > 0 {
			// the same telegram with additional information in front of it (up to the 255 octets
			// the length octet allows: among the largest frames a tunnel carries)
			info := make([]byte, n)
			for i := range info {
				info[i] = byte(o.ID + i)
			}
			c = mkLData(0x29, 0xbc, 0xe0, 0x1105, uint16(o.ID), 2, []byte{0, byte(o.ID >> 8), byte(o.ID)}, info)
		}
	}
	if g.Busmon {
		pad := 0
		if g.InfoLen != nil {
			// raw frames of every length up to what fills the client's receive buffer
			pad = map[int]int{1: 1, 100: 100, 254: 254, 255: 1000}[g.InfoLen(o.ID)]
		}
		c = busmonCEMI(o.ID, pad)
	}
	if raw, ok := g.RawOf[o.ID]; ok {
		c = raw
	}
	if g.tcp != nil {
		g.send(mkTunnelReq(o.Channel, 0, c))
		o.Acked, o.AckAt = true, g.e.Stamp() // the stream delivers it; nothing to wait for
		for i, p := range g.pend {
			if p == o {
				g.pend = append(g.pend[:i:i], g.pend[i+1:]...)
			}
		}
		g.e.S.At(0, "gw-tcp-next", func() { g.kick() })
		return
	}
	g.send(mkTunnelReq(o.Channel, o.Seq, c))
	g.e.S.At(g.OutResend, fmt.Sprintf("gw-resend id=%d", o.ID), func() {
		if !g.isPending(o) {
			return
		}
		if o.Attempts >= g.OutAttempts {
			o.GaveUp = true
			g.e.Probe("gw-gave-up")
			// the tunnelling rules: after the repetition went unanswered the server ends the connection
			g.Disconnect()
			return
		}
		g.e.Probe("gw-resend")
		g.transmit(o)
	})
}

// Close ends the gateway's socket (its task ends).
func (g *Gateway) Close() { g.sock.Close() }
