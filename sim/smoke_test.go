package sim

import (
	"fmt"
	"net"
	"testing"
	"testing/synctest"
	"time"

	"github.com/vapourismo/knx-go/knx"
	"github.com/vapourismo/knx-go/knx/cemi"
	"github.com/vapourismo/knx-go/knx/knxnet"
	"github.com/vapourismo/knx-go/knx/simnet"
	"github.com/vapourismo/knx-go/knx/simrt"
)

func TestSmoke(t *testing.T) {
	for seed := uint64(1); seed <= 3; seed++ {
		synctest.Test(t, func(t *testing.T) {
			dec := simrt.NewDecider(seed)
			s := simrt.New(simrt.Config{Trace: true, Paranoid: true, StickyPermille: 700}, dec)
			defer s.Close()
			f := simnet.New(s, simnet.Config{Default: simnet.Link{DelayMin: time.Millisecond, DelayMax: 5 * time.Millisecond}})
			defer f.Close()
			s.Run(func() {
				gw := f.ListenUDPOn("10.0.0.1", 3671)
				s.Spawn("gw", func() {
					buf := make([]byte, 2048)
					for {
						n, from, err := gw.ReadFromUDP(buf)
						if err != nil {
							return
						}
						var srv knxnet.Service
						if _, err := knxnet.Unpack(buf[:n], &srv); err != nil {
							continue
						}
						switch m := srv.(type) {
						case *knxnet.ConnReq:
							gw.WriteToUDP(knxnet.AllocAndPack(&knxnet.ConnRes{Channel: 7, Status: 0, Control: knxnet.HostInfo{Protocol: knxnet.UDP4}}), from)
						case *knxnet.TunnelReq:
							gw.WriteToUDP(knxnet.AllocAndPack(&knxnet.TunnelRes{Channel: m.Channel, SeqNumber: m.SeqNumber}), from)
						case *knxnet.ConnStateReq:
							gw.WriteToUDP(knxnet.AllocAndPack(&knxnet.ConnStateRes{Channel: m.Channel}), from)
						case *knxnet.DiscReq:
							gw.WriteToUDP(knxnet.AllocAndPack(&knxnet.DiscRes{Channel: m.Channel}), from)
						}
					}
				})
				tun, err := knx.NewTunnel("10.0.0.1:3671", knxnet.TunnelLayerData, knx.TunnelConfig{ResendInterval: 50 * time.Millisecond, ResponseTimeout: time.Second, HeartbeatInterval: time.Second})
				if err != nil {
					t.Errorf("NewTunnel: %v", err)
					return
				}
				for i := 0; i < 3; i++ {
					err := tun.Send(&cemi.LDataReq{LData: cemi.LData{Destination: uint16(i), Data: &cemi.AppData{Command: 2, Data: []byte{1}}}})
					if err != nil {
						t.Errorf("send: %v", err)
					}
				}
				s.SleepFor(2500 * time.Millisecond)
				tun.Close()
				_ = net.IPv4zero
			})
			fmt.Println("seed", seed, "outcome", s.Outcome, "steps", s.Stats.Steps, "hash", s.Hash(), "panics", len(s.Panics), "now", s.Now())
			for _, p := range s.Panics {
				fmt.Println(p.Val, p.Stack)
			}
			if seed == 1 {
				for _, l := range s.Trace() {
					fmt.Println(l)
				}
			}
			fmt.Print(s.BlockedReport())
		})
	}
}
