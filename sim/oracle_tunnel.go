package sim

import (
	"fmt"
	"sort"
	"strings"
	"time"
)

// wireEv is one frame the client put on the wire or read from its socket.
type wireEv struct {
	At   Stamp
	F    Frame
	Werr bool   // the write failed (the frame never left)
	Ref  uint64 // rx: event number of the transmission that produced the datagram
}

type tunView struct {
	r   *tunRun
	tx  []wireEv // frames written by the client's socket, in order (including failed writes)
	rx  []wireEv // frames read by the client's socket receiver, in order
	eps time.Duration
}

func clientView(r *tunRun) *tunView {
	v := &tunView{r: r, eps: r.e.Eps()}
	if r.c.TCP {
		// writes: one record per Write call; reads: chunks of the stream, reassembled into frames
		pfx := "tcp:" + clientIP
		var stream []byte
		for _, rec := range r.e.F.Records() {
			if !strings.HasPrefix(rec.Sock, pfx) {
				continue
			}
			switch rec.Kind {
			case "tcpwrite":
				v.tx = append(v.tx, wireEv{At: Stamp{rec.T, rec.Seq}, F: parseFrame(rec.Data)})
			case "tcpread":
				stream = append(stream, rec.Data...)
				for len(stream) >= 6 {
					tl := int(stream[4])<<8 | int(stream[5])
					if tl < 6 || len(stream) < tl {
						break
					}
					v.rx = append(v.rx, wireEv{At: Stamp{rec.T, rec.Seq}, F: parseFrame(append([]byte(nil), stream[:tl]...))})
					stream = stream[tl:]
				}
			}
		}
		return v
	}
	pfx := "udp:" + clientIP
	for _, rec := range r.e.F.Records() {
		if !strings.HasPrefix(rec.Sock, pfx) {
			continue
		}
		switch rec.Kind {
		case "send", "werr":
			ev := wireEv{At: Stamp{rec.T, rec.Seq}, F: parseFrame(rec.Data), Werr: rec.Kind == "werr"}
			if rec.Seq0 != 0 && ev.F.OK && ev.F.Svc == svcConnReq {
				// a connect request marks the instant the receive loop left its connection: that is
				// when the write call began, not when a stalled write let the datagram go
				ev.At = Stamp{rec.T0, rec.Seq0}
			}
			v.tx = append(v.tx, ev)
		case "read":
			v.rx = append(v.rx, wireEv{At: Stamp{rec.T, rec.Seq}, F: parseFrame(wholeDatagram(rec)), Ref: rec.Ref})
		}
	}
	sort.SliceStable(v.tx, func(i, j int) bool { return v.tx[i].At.Seq < v.tx[j].At.Seq })
	return v
}

func checkTunnel(r *tunRun) {
	v := clientView(r)
	m := buildConnModel(v)
	if r.e.Spec.Trace {
		for k, ep := range m.epochs {
			r.e.S.Tracef("model epoch %d ch=%d start=%v end=%v why=%s stall-until=%v ambig=%d", k, ep.Channel, ep.Start.T, ep.End.T, ep.EndWhy, ep.StallUntil, ep.Ambig)
		}
		for i, x := range v.rx {
			if x.F.OK && (x.F.Svc == svcTunnelReq || x.F.Svc == svcConnRes || x.F.Svc == svcDiscReq || x.F.Svc == svcDiscRes) {
				r.e.S.Tracef("model rx[%d] %v %s mode=%d", i, x.At.T, x.F, m.mode[i])
			}
		}
		if m.term != nil {
			r.e.S.Tracef("model terminated at %v: %s", m.term.T, m.termWhy)
		}
		if m.giveUp {
			r.e.S.Tracef("model gave up at %v", m.giveUpAt.T)
		}
	}
	checkC03(v, m)
	checkC04(v, m)
	checkC05(v, m)
	checkC09(v, m)
	checkC10(v, m)
	// C16: the connect request advertises the socket's real local endpoint when configured to,
	// the all-zero (NAT) endpoint with the right protocol code otherwise
	for _, x := range v.tx {
		if x.F.OK && x.F.Svc == svcConnReq {
			want := mkHPAI(1, [4]byte{}, 0)
			if r.c.TCP {
				want = mkHPAI(2, [4]byte{}, 0)
			} else if r.c.LocalAddr {
				if port := clientPort(r.e); port != 0 {
					want = mkHPAI(1, [4]byte{10, 0, 0, 2}, uint16(port))
				}
			}
			if string(x.F.HPAI) != string(want) || string(x.F.HPAI2) != string(want) {
				r.e.Violate("C16", "connect-request-endpoint", "connect request advertises control endpoint %x and data endpoint %x; expected %x (SendLocalAddress=%v, tcp=%v)", x.F.HPAI, x.F.HPAI2, want, r.c.LocalAddr, r.c.TCP)
				break
			}
		}
	}
	for _, x := range v.tx {
		if !x.F.OK {
			r.e.Violate("C16", "client-emitted-malformed-frame", "client wrote a frame whose header length disagrees with its size: %x", x.F.Raw)
		}
	}
}

// ---------------------------------------------------------------------------------------
// Connection model: which epoch the client is in, reconstructed from what its socket read and
// wrote. The receive loop consumes frames in socket-read order; the only transitions that are
// not caused by a frame in that stream are a heartbeat failure (visible as a connect request on
// the wire), a reconnect timeout and Close.

type connEpoch struct {
	Channel uint8
	Start   Stamp  // connect response read by the socket
	End     Stamp  // zero Seq: still open at the end of the observation
	EndWhy  string // "discreq", "async-reconnect", "discres", "close", "refused", "reconnect-timeout"
	Ambig   int    // index into rx of the one frame whose consumption is ambiguous at End (-1: none)
	// StallUntil bounds the instant at which the receive loop really starts to work in this
	// epoch: after the connect response the loop waits for the sender lock, i.e. for every Send
	// that was in progress or queued when the response was read (each takes at most T). While
	// it waits, one frame sits in the socket's hand-off and is consumed late.
	StallUntil time.Duration
	Pending    int
}

type connModel struct {
	epochs          []*connEpoch
	mode            []int  // per rx frame: index of the epoch that consumed it in process mode, -1: reconnect exchange / not consumed, -2: ambiguous
	term            *Stamp // tunnel terminated on its own (not by Close)
	termWhy         string
	closeInv        *Stamp // first Close invocation
	asyncReconnects int
	giveUp          bool // model lost track (rare ambiguous instants): strict checks stop at giveUpAt
	giveUpAt        Stamp
	giveUpWhy       string
	between         bool    // the observations end between two connections (a reconnect exchange that had not come to its end)
	connReqTx       []Stamp // first transmissions of connect attempts
}

func (m *connModel) epochAt(s Stamp) *connEpoch {
	for i := len(m.epochs) - 1; i >= 0; i-- {
		ep := m.epochs[i]
		if ep.Start.Seq <= s.Seq {
			if ep.End.Seq != 0 && ep.End.Seq < s.Seq {
				return nil
			}
			return ep
		}
	}
	return nil
}

func buildConnModel(v *tunView) *connModel {
	r := v.r
	m := &connModel{mode: make([]int, len(v.rx))}
	if len(r.h.Closes) > 0 {
		st := r.h.Closes[0].Inv
		m.closeInv = &st
	}
	// Merge the stream of frames read by the client with its own connect requests, by event number.
	type ev struct {
		at   Stamp
		rxi  int  // index into v.rx, or -1 for a connect request written by the client
		werr bool // the connect request could not be written
	}
	var evs []ev
	for i, x := range v.rx {
		evs = append(evs, ev{x.At, i, false})
	}
	for _, x := range v.tx {
		if x.F.OK && x.F.Svc == svcConnReq {
			evs = append(evs, ev{x.At, -1, x.Werr})
		}
		if x.F.OK && x.F.Svc == svcConnStateReq {
			evs = append(evs, ev{x.At, -2, x.Werr}) // a heartbeat exchange began (even if the write failed)
		}
	}
	sort.SliceStable(evs, func(i, j int) bool { return evs[i].at.Seq < evs[j].at.Seq })
	const (
		mdConnecting = iota
		mdProcess
		mdDead
	)
	mode := mdConnecting
	var cur *connEpoch
	var attempt *Stamp // first transmission of the connect attempt in progress
	lastRx := -1       // index of the last frame read so far
	hbInEpoch := false // the client has started a heartbeat exchange in the current epoch
	endEpoch := func(at Stamp, why string, ambig int) {
		if cur != nil {
			cur.End, cur.EndWhy, cur.Ambig = at, why, ambig
			cur = nil
		}
	}
	for _, ev := range evs {
		if m.closeInv != nil && ev.at.Seq > m.closeInv.Seq {
			// after Close was invoked nothing is required of frames still being read
			if ev.rxi >= 0 {
				m.mode[ev.rxi] = -2
			}
			continue
		}
		if ev.rxi == -2 {
			if mode == mdProcess {
				hbInEpoch = true
			}
			continue
		}
		if ev.rxi < 0 && ev.werr {
			// a connect request that could not be written ends the connect exchange with an error:
			// the tunnel terminates (or was never created)
			if mode == mdProcess {
				amb := -1
				if lastRx >= 0 && m.mode[lastRx] == len(m.epochs)-1 {
					amb = lastRx
					m.mode[lastRx] = -2
				}
				endEpoch(ev.at, "async-reconnect", amb)
				m.asyncReconnects++
			}
			if mode != mdDead && len(m.epochs) > 0 {
				st := ev.at
				m.term, m.termWhy = &st, "connect-write-error"
			}
			mode = mdDead
			continue
		}
		if ev.rxi < 0 {
			// the client wrote a connect request
			if mode == mdProcess && !hbInEpoch && ev.at.T-cur.Start.T <= v.eps && (lastRx < 0 || v.rx[lastRx].At.Seq <= cur.Start.Seq) {
				// The connect exchange polls its resend ticker and the socket in one select: a
				// retransmission may still leave in the instant in which the response has been
				// read but not yet taken - or later by whatever stall the simulator injected into
				// the hand-over. (A heartbeat failure cannot happen that early unless the heartbeat request could not even be written - hence hbInEpoch.)
				continue
			}
			switch mode {
			case mdProcess:
				// asynchronous reconnect (heartbeat failure): the receive loop left the epoch
				// before this instant; the one frame read last may not have been processed
				amb := -1
				if lastRx >= 0 && m.mode[lastRx] == len(m.epochs)-1 {
					amb = lastRx
					m.mode[lastRx] = -2
				}
				if amb >= 0 && v.rx[amb].F.OK && v.rx[amb].F.Svc == svcConnRes && ev.at.T-v.rx[amb].At.T <= v.eps {
					// a connect response (a stray or forged one) read in the instant the loop left
					// its connection: the connect exchange that starts now may take it for its
					// answer, or the loop may have dropped it - there is no telling
					m.giveUp, m.giveUpAt, m.giveUpWhy = true, v.rx[amb].At, "connres-as-loop-left"
					return m
				}
				endEpoch(ev.at, "async-reconnect", amb)
				m.asyncReconnects++
				mode = mdConnecting
				st := ev.at
				attempt = &st
				m.connReqTx = append(m.connReqTx, ev.at)
			case mdConnecting:
				if attempt == nil {
					st := ev.at
					attempt = &st
					m.connReqTx = append(m.connReqTx, ev.at)
				}
			case mdDead:
				// A connect request right after the disconnect response that "ended" the tunnel:
				// the loop had left the connection in that very instant for another reason (a
				// heartbeat giving up at the same tick) and the response was read by the reconnect
				// exchange, which ignores it. The tunnel lives on.
				if m.termWhy == "discres" && m.term != nil && ev.at.T-m.term.T <= v.eps && len(m.epochs) > 0 {
					last := m.epochs[len(m.epochs)-1]
					last.EndWhy = "async-reconnect"
					m.term, m.termWhy = nil, ""
					m.asyncReconnects++
					mode = mdConnecting
					st := ev.at
					attempt = &st
					m.connReqTx = append(m.connReqTx, ev.at)
				}
			}
			continue
		}
		i := ev.rxi
		x := v.rx[i]
		lastRx = i
		m.mode[i] = -1
		switch mode {
		case mdConnecting:
			if !x.F.OK || x.F.Svc != svcConnRes {
				continue
			}
			if attempt == nil {
				// a connect response before the client asked (cannot be consumed by a connect
				// exchange that has not started: it is read and dropped, or consumed an instant
				// later - ambiguous, stop modelling)
				m.giveUp, m.giveUpAt, m.giveUpWhy = true, x.At, "connres-before-request"
				return m
			}
			el := x.At.T - attempt.T
			// (only the delays injected while this exchange was under way can move its time-out or
			// the hand-over of the response: the run's total would make every response of a run
			// with many stalls "ambiguous")
			w := r.e.EpsIn(attempt.T, max(x.At.T, attempt.T+r.c.T))
			if el > r.c.T+w {
				continue // the exchange has timed out already
			}
			if el >= r.c.T-w && x.F.Status == 0 && len(m.epochs) == 0 && m.term == nil {
				// the very first exchange: NewTunnel returned a tunnel (or this oracle would not
				// run), so the exchange did not time out, and it cannot skip a response
				r.e.Probe("connres-at-timeout-settled-by-newtunnel")
			} else if el >= r.c.T-w && x.F.Status != 0x24 && x.F.Status != 0x25 {
				m.giveUp, m.giveUpAt, m.giveUpWhy = true, x.At, "connres-at-timeout"
				return m
			}
			switch x.F.Status {
			case 0:
				cur = &connEpoch{Channel: x.F.Channel, Start: x.At, Ambig: -1, StallUntil: x.At.T}
				hbInEpoch = false
				// The receive loop queues for the sender lock behind the Sends that were in
				// progress or queued when it read the response (hand-over in arrival order): it
				// starts to work when the last of them has returned.
				for _, sc := range r.h.Sends {
					// (a Send invoked in the very instant the response is read may still get the
					// lock first: taking the response off the socket takes several scheduler steps)
					if sc.Inv.T <= x.At.T+v.eps && (!sc.Done || sc.Ret.Seq > x.At.Seq) {
						cur.Pending++
						if !sc.Done {
							cur.StallUntil = x.At.T + time.Duration(len(r.h.Sends)+1)*(r.c.T+v.eps)
						} else if sc.Ret.T > cur.StallUntil {
							cur.StallUntil = sc.Ret.T
						}
					}
				}
				m.epochs = append(m.epochs, cur)
				mode = mdProcess
				attempt = nil
			case 0x24, 0x25:
			default:
				mode = mdDead
				if len(m.epochs) > 0 {
					st := x.At
					m.term, m.termWhy = &st, "refused"
				}
			}
		case mdProcess:
			m.mode[i] = len(m.epochs) - 1
			if !x.F.OK {
				continue
			}
			switch x.F.Svc {
			case svcDiscReq:
				if x.F.Channel == cur.Channel {
					endEpoch(x.At, "discreq", -1)
					mode = mdConnecting
					attempt = nil
				}
			case svcDiscRes:
				if x.F.Channel == cur.Channel {
					endEpoch(x.At, "discres", -1)
					mode = mdDead
					st := x.At
					m.term, m.termWhy = &st, "discres"
				}
			}
		}
	}
	if mode == mdConnecting && len(m.epochs) > 0 && m.term == nil && attempt != nil {
		// a reconnect exchange that never got its answer: the tunnel terminates T after its start
		dead := Stamp{T: attempt.T + r.c.T, Seq: ^uint64(0) >> 1}
		// (only what was injected while this exchange was under way can move its time-out)
		w := r.e.EpsIn(attempt.T, dead.T)
		if (m.closeInv == nil || dead.T+w < m.closeInv.T) && r.h.Settled.T > dead.T+w {
			m.term, m.termWhy = &dead, "reconnect-timeout"
		}
	}
	if mode == mdConnecting && len(m.epochs) > 0 && m.term == nil {
		m.between = true
	}
	if cur != nil && m.closeInv != nil {
		cur.End, cur.EndWhy = *m.closeInv, "close"
		// the last frame read before Close may or may not have been processed
		for i := len(v.rx) - 1; i >= 0; i-- {
			if v.rx[i].At.Seq < m.closeInv.Seq {
				if m.mode[i] == len(m.epochs)-1 {
					m.mode[i] = -2
					cur.Ambig = i
				}
				break
			}
		}
	}
	return m
}

// ---------------------------------------------------------------------------------------
// C03

type reqTx struct {
	call *SendCall
	at   []Stamp
	raw  []byte
	ch   uint8
	seq  uint8
}

func checkC03(v *tunView, m *connModel) {
	r := v.r
	e := r.e
	c := r.c
	eps := v.eps
	byID := map[int]*SendCall{}
	all := append(append([]*SendCall(nil), r.h.Sends...), r.h.lateSends...)
	for _, s := range all {
		byID[s.ID] = s
	}
	reqs := map[int]*reqTx{}
	var order []*reqTx
	ackedBy := func(o *reqTx, at Stamp) bool {
		for _, y := range v.rx {
			if y.At.Seq >= at.Seq {
				break
			}
			if y.F.OK && y.F.Svc == svcTunnelRes && y.F.Channel == o.ch && y.F.Seq == o.seq {
				return true
			}
		}
		return false
	}
	for _, x := range v.tx {
		if !x.F.OK || x.F.Svc != svcTunnelReq || x.Werr {
			continue
		}
		id := cemiID(x.F.CEMI)
		call := byID[id]
		if call == nil {
			e.Violate("C03", "unattributed-request", "tunnelling request on the wire that no Send call issued: %s", x.F)
			continue
		}
		q := reqs[id]
		if q == nil {
			q = &reqTx{call: call, raw: x.F.Raw, ch: x.F.Channel, seq: x.F.Seq}
			reqs[id] = q
			order = append(order, q)
		} else if string(q.raw) != string(x.F.Raw) {
			e.Violate("C03", "retransmission-differs", "retransmission of id=%d differs from the first transmission: first %x, now %x", id, q.raw, x.F.Raw)
		}
		q.at = append(q.at, x.At)
		// one in flight: an earlier request is still unacknowledged at this instant if its Send has
		// not returned, no acknowledgement for it (OK or error) has been read yet, and its response
		// timeout has not elapsed. (The Send's return itself may lag: it releases the sender lock,
		// and the next sender may transmit, before it gets to return.)
		for _, o := range order {
			if o == q {
				continue
			}
			if o.at[0].Seq < x.At.Seq && (!o.call.Done || o.call.Ret.T > x.At.T) && !ackedBy(o, x.At) && x.At.T < o.at[0].T+c.T-eps {
				e.Violate("C03", "two-in-flight", "request id=%d (seq %d) transmitted at %v while id=%d (seq %d, first sent %v) was still unacknowledged and its Send had not returned",
					id, x.F.Seq, x.At.T, o.call.ID, o.seq, o.at[0].T)
			}
		}
		if call.Done && call.Ret.Seq < x.At.Seq {
			e.Violate("C03", "transmission-after-return", "request id=%d transmitted at %v after its Send returned at %v", id, x.At.T, call.Ret.T)
		}
	}
	if c.TCP {
		// (6) every Send transmits exactly one request (sequence field 0) and returns without waiting
		for _, q := range order {
			if len(q.at) != 1 {
				e.Violate("C03", "tcp-retransmission", "TCP tunnel: request id=%d was written %d times", q.call.ID, len(q.at))
			}
			if q.seq != 0 {
				e.Violate("C03", "tcp-seq-not-zero", "TCP tunnel: request id=%d carries sequence number %d", q.call.ID, q.seq)
			}
			if q.call.Done && q.call.Ret.T-q.at[0].T > eps {
				e.Violate("C03", "tcp-send-waits", "TCP tunnel: Send id=%d returned %v after writing its request", q.call.ID, q.call.Ret.T-q.at[0].T)
			}
		}
		for _, s := range r.h.Sends {
			if s.Done && s.OK && reqs[s.ID] == nil {
				e.Violate("C03", "success-without-ack", "TCP tunnel: Send id=%d reported success without writing a request", s.ID)
			}
			if !s.Done {
				e.Violate("C03", "send-exceeds-timeout", "TCP tunnel: Send id=%d never returned", s.ID)
			}
		}
		return
	}
	// (2) retransmission cadence and (5) timeout bound
	for _, q := range order {
		for i := 1; i < len(q.at); i++ {
			gap := q.at[i].T - q.at[i-1].T
			if gap < c.R-eps || gap > c.R+eps {
				e.Violate("C03", "resend-interval", "id=%d: transmissions %d and %d are %v apart, resend interval is %v (slack %v)", q.call.ID, i-1, i, gap, c.R, eps)
			}
		}
		if q.call.Done {
			last := q.at[len(q.at)-1]
			if d := q.call.Ret.T - last.T; d > c.R+eps {
				e.Violate("C03", "resend-stopped", "id=%d: Send returned %v after the last transmission without a retransmission (resend interval %v)", q.call.ID, d, c.R)
			}
			if d := q.call.Ret.T - q.at[0].T; d > c.T+eps {
				e.Violate("C03", "send-exceeds-timeout", "id=%d: Send returned %v after its first transmission, response timeout is %v (slack %v)", q.call.ID, d, c.T, eps)
			}
		} else if r.h.Settled.T-q.at[0].T > c.T+eps {
			e.Violate("C03", "send-exceeds-timeout", "id=%d: Send has not returned %v after its first transmission, response timeout is %v", q.call.ID, r.h.Settled.T-q.at[0].T, c.T)
		}
	}
	// acknowledgements read by the client
	type ackRx struct {
		at     Stamp
		ch     uint8
		seq    uint8
		status uint8
		used   bool
	}
	var acks []*ackRx
	for _, x := range v.rx {
		if x.F.OK && x.F.Svc == svcTunnelRes {
			acks = append(acks, &ackRx{at: x.At, ch: x.F.Channel, seq: x.F.Seq, status: x.F.Status})
		}
	}
	// (4) success only by consuming a matching acknowledgement, each at most once
	var oks []*reqTx
	for _, q := range order {
		if q.call.Done && q.call.OK {
			oks = append(oks, q)
		}
	}
	sort.Slice(oks, func(i, j int) bool { return oks[i].call.Ret.Seq < oks[j].call.Ret.Seq })
	// An acknowledgement is on offer to the senders for one resend interval from the moment the
	// receive loop has taken it in (which is when the socket read it, or the end of the loop's
	// stall if that is later); one that is older than that when the Send returns cannot be what the
	// Send consumed - unless the library keeps acknowledgements around for longer than it says.
	fresh := func(a *ackRx, ret Stamp) bool {
		if m.giveUp {
			return true
		}
		took := a.at.T
		ep := m.epochAt(a.at)
		if ep == nil || m.closeInv != nil && a.at.Seq > m.closeInv.Seq {
			// read outside every connection the model follows (during a reconnect exchange, or after
			// Close was invoked): when the receive loop gets round to it is not known
			return true
		}
		if ep.StallUntil > took {
			took = ep.StallUntil
		}
		return ret.T-took <= c.R+2*eps
	}
	for _, q := range oks {
		found, stale := false, false
		for pass := 0; pass < 2 && !found; pass++ {
			for _, a := range acks {
				if a.used || a.ch != q.ch || a.seq != q.seq || a.status != 0 {
					continue
				}
				if a.at.Seq > q.call.Ret.Seq {
					continue
				}
				if pass == 0 && !fresh(a, q.call.Ret) {
					continue // prefer one that can still have been on offer
				}
				if pass == 1 {
					stale = true
				}
				a.used, found = true, true
				break
			}
		}
		if found && stale {
			e.Violate("C03", "success-by-expired-ack", "Send id=%d (channel %d, seq %d) reported success at %v; the only matching acknowledgements the client had read by then were older than one resend interval (%v) and should no longer have been on offer", q.call.ID, q.ch, q.seq, q.call.Ret.T, c.R)
		}
		if !found {
			e.Violate("C03", "success-without-ack", "Send id=%d (channel %d, seq %d) reported success at %v but no unconsumed acknowledgement with that channel, sequence number and status OK had been read by the client", q.call.ID, q.ch, q.seq, q.call.Ret.T)
		}
	}
	for _, s := range all {
		if s.Done && s.OK && reqs[s.ID] == nil {
			e.Violate("C03", "success-without-ack", "Send id=%d reported success without transmitting anything", s.ID)
		}
	}
	errAck := func(q *reqTx) bool {
		for _, a := range acks {
			if a.ch == q.ch && a.seq == q.seq && a.status != 0 && (!q.call.Done || a.at.Seq <= q.call.Ret.Seq) {
				return true
			}
		}
		return false
	}
	// errAckConsumed: beyond doubt the failed Send ended because it took a matching error
	// acknowledgement (it returned in the instant the acknowledgement was read, well before its
	// response timeout, with the tunnel alive and nobody closing it, and all its transmissions
	// were written): the number is used up.
	errAckConsumed := func(q *reqTx) bool {
		if !q.call.Done || q.call.OK || m.giveUp {
			return false
		}
		ret := q.call.Ret
		if ret.T >= q.at[0].T+c.T-eps {
			return false
		}
		if m.term != nil && m.term.T <= ret.T+eps || m.closeInv != nil && m.closeInv.T <= ret.T+eps {
			return false
		}
		for _, x := range v.tx {
			if x.Werr && x.At.Seq >= q.at[0].Seq && x.At.Seq <= ret.Seq {
				return false // some write failed while it was waiting: that may be what ended it
			}
		}
		for i, x := range v.rx {
			if x.F.OK && x.F.Svc == svcTunnelRes && x.F.Status != 0 && x.F.Channel == q.ch && x.F.Seq == q.seq && m.mode[i] >= 0 &&
				x.At.Seq > q.at[0].Seq && x.At.Seq < ret.Seq && ret.T-x.At.T <= eps && x.At.T > m.epochs[m.mode[i]].StallUntil+eps {
				return true
			}
		}
		return false
	}
	// (3) numbering. N1: per channel the acknowledged requests carry 0,1,2,... (an acknowledgement
	// with an error status consumes a number too; where it is uncertain whether a failed Send
	// consumed one, both continuations are allowed). N2: a request following an unacknowledged
	// one on the same channel reuses its number (stop-and-wait), or restarts at 0.
	// A matching acknowledgement with an error status makes Send fail: once the receive loop has
	// taken such an acknowledgement in while the request is waiting, the Send must return (with an
	// error) in that instant.
	if !m.giveUp {
		for i, x := range v.rx {
			if !x.F.OK || x.F.Svc != svcTunnelRes || x.F.Status == 0 || m.mode[i] < 0 {
				continue
			}
			if x.At.T <= m.epochs[m.mode[i]].StallUntil+eps {
				continue // the receive loop may not be running yet
			}
			for _, q := range order {
				if q.ch != x.F.Channel || q.seq != x.F.Seq || q.at[0].Seq > x.At.Seq {
					continue
				}
				if q.call.Done && q.call.Ret.T <= x.At.T {
					continue // not waiting any more
				}
				if ackedBy(q, x.At) {
					continue // an earlier acknowledgement is being consumed
				}
				if q.call.Done && q.call.OK && q.call.Ret.T <= x.At.T+eps {
					// the hand-over of this acknowledgement was held up (within the slack) and an
					// acknowledgement with status OK for the same request came in meanwhile: that one won
					overtaken := false
					for _, y := range v.rx {
						if y.At.Seq > x.At.Seq && y.At.Seq <= q.call.Ret.Seq && y.F.OK && y.F.Svc == svcTunnelRes && y.F.Status == 0 && y.F.Channel == q.ch && y.F.Seq == q.seq {
							overtaken = true
						}
					}
					if overtaken {
						e.Probe("error-ack-overtaken-by-ok-ack")
						continue
					}
				}
				if !q.call.Done || q.call.Ret.T > x.At.T+eps || q.call.OK {
					e.Violate("C03", "error-ack-not-failing-send", "acknowledgement {ch=%d seq=%d status=%#x} was read at %v while Send id=%d was waiting for exactly that acknowledgement; the Send returned at %v with ok=%v", x.F.Channel, x.F.Seq, x.F.Status, x.At.T, q.call.ID, q.call.Ret.T, q.call.OK)
				}
				e.Probe("error-ack-while-waiting")
			}
		}
	}
	// A Send ends for a reason: success, its response timeout, a matching acknowledgement with an
	// error status, a write that failed, or the end of the tunnel. Anything else that arrives while it
	// waits (acknowledgements for another channel or number, other services) is ignored.
	if !m.giveUp {
		for _, q := range order {
			if !q.call.Done || q.call.OK {
				continue
			}
			ret := q.call.Ret
			if ret.T >= q.at[0].T+c.T-eps {
				continue // the response timeout
			}
			if m.term != nil && m.term.T <= ret.T+eps || m.closeInv != nil && m.closeInv.T <= ret.T+eps || m.between && m.epochAt(ret) == nil {
				continue // the tunnel ended (or may have)
			}
			cause := false
			for _, y := range v.tx {
				if y.Werr && y.At.Seq >= q.at[0].Seq && y.At.Seq <= ret.Seq {
					cause = true // a write failed while it was under way
				}
			}
			for _, y := range v.rx {
				if y.At.Seq > ret.Seq || !y.F.OK || y.F.Svc != svcTunnelRes || y.F.Status == 0 || y.F.Seq != q.seq {
					continue
				}
				took := y.At.T // when the receive loop can have taken it in, as far as the model knows
				if ep := m.epochAt(y.At); ep == nil {
					took = ret.T
				} else if ep.StallUntil > took {
					took = ep.StallUntil
				}
				if took >= q.at[0].T-c.R-eps {
					// an acknowledgement with an error status and the request's number (whatever epoch its
					// channel belongs to; one read shortly before the request left is still on offer)
					cause = true
				}
			}
			if len(q.at) == 0 || cause {
				continue
			}
			e.Violate("C03", "send-failed-without-cause", "Send id=%d (channel %d, seq %d, first transmitted %v) failed at %v with %q: before its response timeout (%v), with the tunnel alive, no write failed and no acknowledgement with an error status for its number read meanwhile", q.call.ID, q.ch, q.seq, q.at[0].T, ret.T, q.call.Err, c.T)
		}
		// ... and every Send ends: those queued behind it wait at most one response timeout each
		// (every sending goroutine has one Send under way at a time, so that is how long the queue gets)
		n := c.Senders + 1
		until := r.h.Settled // ... while the tunnel is there
		if m.term != nil && m.term.T < until.T {
			until = *m.term
		}
		if m.closeInv != nil && m.closeInv.T < until.T {
			until = *m.closeInv
		}
		for _, sc := range all {
			if sc.Done {
				continue
			}
			bound := sc.Inv.T + time.Duration(n+2)*(c.T+c.R+eps)
			if until.T > bound {
				e.Violate("C03", "send-never-returned", "Send id=%d invoked at %v had not returned at %v (%d goroutines send, response timeout %v): a Send waits for those before it, each for its response timeout at most", sc.ID, sc.Inv.T, until.T, c.Senders, c.T)
				break
			}
		}
	}
	// Acknowledgements for another channel or sequence number are ignored - the matching one is not:
	// once the receive loop has taken in an acknowledgement with status OK that carries the
	// connection's channel and the waiting request's number, the Send returns with success in that
	// instant (it does not go on waiting, retransmit, or time out).
	if !m.giveUp {
		for i, x := range v.rx {
			if !x.F.OK || x.F.Svc != svcTunnelRes || x.F.Status != 0 || m.mode[i] < 0 {
				continue
			}
			ep := m.epochs[m.mode[i]]
			if x.F.Channel != ep.Channel || x.At.T <= ep.StallUntil+eps {
				continue
			}
			if ep.End.Seq != 0 && ep.End.T <= x.At.T+eps || m.term != nil && m.term.T <= x.At.T+eps || m.closeInv != nil && m.closeInv.T <= x.At.T+eps {
				continue // the connection is about to go: the Send may be cut short instead
			}
			for _, q := range order {
				if q.ch != x.F.Channel || q.seq != x.F.Seq || q.at[0].Seq > x.At.Seq || q.at[0].Seq < ep.Start.Seq {
					continue
				}
				if q.call.Done && q.call.Ret.T <= x.At.T+eps {
					continue // not waiting any more (or ending for another reason in this instant)
				}
				if x.At.T >= q.at[0].T+c.T-eps {
					continue // the response timeout may win
				}
				earlier := false
				for _, y := range v.rx {
					if y.At.Seq >= x.At.Seq {
						break
					}
					if y.At.Seq > q.at[0].Seq && y.F.OK && y.F.Svc == svcTunnelRes && y.F.Channel == q.ch && y.F.Seq == q.seq {
						earlier = true // an earlier acknowledgement (OK or not) decides
					}
				}
				werr := false
				for _, y := range v.tx {
					if y.Werr && y.At.Seq >= q.at[0].Seq && (!q.call.Done || y.At.Seq <= q.call.Ret.Seq) {
						werr = true // a write that failed while it was waiting may be what ended it
					}
				}
				if earlier || werr {
					continue
				}
				e.Probe("matching-ack-while-waiting")
				if !q.call.Done || !q.call.OK {
					e.Violate("C03", "matching-ack-ignored", "acknowledgement {ch=%d seq=%d status=0} was read at %v while Send id=%d (first transmitted %v, response timeout %v) was waiting for exactly that acknowledgement; the Send did not take it (done=%v ok=%v returned %v err=%q)",
						x.F.Channel, x.F.Seq, x.At.T, q.call.ID, q.at[0].T, c.T, q.call.Done, q.call.OK, q.call.Ret.T, q.call.Err)
				}
			}
		}
	}
	// Requests are grouped by connection epoch (from the connection model), not by channel
	// value: a gateway may hand out the same channel id again. A request first transmitted while
	// the receive loop was still waiting for the sender lock (the epoch's stall window) may
	// belong to either epoch; if the channel value does not tell, it is not judged and the
	// numbering state it touches is forgotten.
	type chanState struct {
		last *reqTx
		next map[uint8]bool // possible numbers of the next acknowledged request (nil: unknown)
	}
	groups := map[int]*chanState{}
	groupOf := func(q *reqTx) (int, bool) {
		if m.giveUp {
			return 0, false
		}
		for k := len(m.epochs) - 1; k >= 0; k-- {
			ep := m.epochs[k]
			if ep.Start.Seq > q.at[0].Seq {
				continue
			}
			if ep.End.Seq != 0 && q.at[0].Seq > ep.End.Seq {
				// first transmitted after the last connection the model follows had ended (a reconnect
				// that the model does not follow - after Close was invoked - may have come in between,
				// with the same channel id and a fresh count): not judged, and what was known about that
				// connection's numbering is forgotten
				delete(groups, k)
				return 0, false
			}
			if k > 0 && q.at[0].T <= ep.StallUntil+eps {
				prev := m.epochs[k-1]
				if q.ch != ep.Channel && q.ch == prev.Channel {
					return k - 1, true
				}
				if q.ch == ep.Channel && q.ch != prev.Channel {
					return k, true
				}
				// cannot tell: forget what we knew about both
				delete(groups, k)
				delete(groups, k-1)
				return 0, false
			}
			return k, true
		}
		return 0, false
	}
	for _, q := range order {
		gk, okg := groupOf(q)
		if !okg {
			continue
		}
		cs := groups[gk]
		if cs == nil {
			cs = &chanState{next: map[uint8]bool{0: true}}
			groups[gk] = cs
			// Is this the first request first transmitted after the (re)connect? Then it is the
			// connection's first request, and - unless it left while the receive loop was still
			// waiting for the sender lock - it must carry 0.
			first := true
			for _, o := range order {
				if o != q && o.at[0].Seq > m.epochs[gk].Start.Seq && o.at[0].Seq < q.at[0].Seq {
					first = false
				}
			}
			// (a channel id that differs from the previous connection's proves that the request was
			// built after the new channel had been stored, whenever it left)
			certainNew := gk > 0 && q.ch == m.epochs[gk].Channel && q.ch != m.epochs[gk-1].Channel
			if first && q.seq != 0 && (certainNew || q.at[0].T > m.epochs[gk].StallUntil+eps) {
				e.Violate("C03", "first-seq-not-zero", "the first request after the (re)connect at %v (id=%d, channel %d, first sent %v) carries sequence number %d, not 0", m.epochs[gk].Start.T, q.call.ID, q.ch, q.at[0].T, q.seq)
				e.Violate("C09", "seq-not-restarted", "the first request after the (re)connect at %v (id=%d, channel %d, first sent %v) carries sequence number %d, not 0", m.epochs[gk].Start.T, q.call.ID, q.ch, q.at[0].T, q.seq)
			}
			if !first {
				cs.next = nil
			}
		}
		ok := q.call.Done && q.call.OK
		maybe := !ok && errAck(q)
		if p := cs.last; p != nil {
			pok := p.call.Done && p.call.OK
			want := map[uint8]bool{p.seq: true, 0: true}
			if pok {
				want = map[uint8]bool{p.seq + 1: true}
			} else if errAckConsumed(p) {
				want = map[uint8]bool{p.seq + 1: true, 0: true}
				e.Probe("error-ack-consumed-a-number")
			} else if errAck(p) {
				want[p.seq+1] = true
			}
			if !want[q.seq] {
				e.Violate("C03", "seq-not-consecutive", "connection %d (channel %d): request id=%d carries sequence number %d after id=%d carried %d (acknowledged=%v): expected one of %v", gk, q.ch, q.call.ID, q.seq, p.call.ID, p.seq, pok, keysU8(want))
			}
			if q.seq == 0 && p.seq == 255 && pok {
				e.Probe("outbound-seq-wrap")
			}
		}
		cs.last = q
		if ok {
			if cs.next != nil && !cs.next[q.seq] {
				e.Violate("C03", "acked-seq-not-consecutive", "connection %d (channel %d): acknowledged request id=%d carries sequence number %d, but the acknowledged requests before it on this connection make %v the next number", gk, q.ch, q.call.ID, q.seq, keysU8(cs.next))
			}
			cs.next = map[uint8]bool{q.seq + 1: true}
		} else if maybe && cs.next != nil && cs.next[q.seq] {
			cs.next[q.seq+1] = true
		}
	}
	// a matching acknowledgement with an error status must not yield success unless an OK one was there too (covered by 4)
	// Fault-free runs: every Send succeeds.
	if c.FaultFree && c.Adversary == 0 && c.Director == 0 && !c.CloseEarly {
		for _, s := range r.h.Sends {
			if !s.Done || !s.OK {
				e.Violate("C03", "faultfree-send-failed", "no fault was injected in this run, yet Send id=%d failed: done=%v err=%q", s.ID, s.Done, s.Err)
			}
		}
	}
	// probes
	for _, q := range order {
		if len(q.at) > 1 {
			e.Probe("request-retransmitted")
		}
		if q.call.Done && !q.call.OK && strings.Contains(q.call.Err, "timeout") {
			e.Probe("send-timed-out")
		}
	}
}

func fmtStamp(s Stamp) string { return fmt.Sprintf("%v#%d", s.T, s.Seq) }

func keysU8(m map[uint8]bool) []int {
	var out []int
	for k := range m {
		out = append(out, int(k))
	}
	sort.Ints(out)
	return out
}

// clientPort is the local port of the client's UDP socket, from the fabric's socket labels.
func clientPort(e *Env) int {
	for _, rec := range e.F.Records() {
		if strings.HasPrefix(rec.Sock, "udp:"+clientIP+":") {
			rest := strings.TrimPrefix(rec.Sock, "udp:"+clientIP+":")
			if i := strings.Index(rest, ">"); i >= 0 {
				rest = rest[:i]
			}
			p := 0
			fmt.Sscanf(rest, "%d", &p)
			return p
		}
	}
	return 0
}
