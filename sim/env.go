package sim

import (
	"fmt"
	"os"
	"reflect"
	"sort"
	"strings"
	"sync"
	"testing"
	"testing/synctest"
	"time"

	"github.com/vapourismo/knx-go/knx/simnet"
	"github.com/vapourismo/knx-go/knx/simrt"
	"github.com/vapourismo/knx-go/knx/util"
)

// RunSpec identifies one simulated execution completely: scenario + seed (+ recorded decisions
// when replaying). Everything else is derived from the decision stream.
type RunSpec struct {
	Scenario   string           `json:"scenario"`
	Prop       string           `json:"property"` // property whose profile shapes the swarm configuration
	Seed       uint64           `json:"seed"`
	Decisions  map[string][]int `json:"decisions,omitempty"` // non-nil: replay
	Trace      bool             `json:"-"`
	MaxSteps   int              `json:"max_steps,omitempty"`
	StepFactor int              `json:"step_factor,omitempty"` // multiplies the scenario's step budget
}

// Violation is one oracle failure.
type Violation struct {
	Prop   string `json:"property"`
	Class  string `json:"class"`  // stable violation class, also the known-findings key
	Detail string `json:"detail"` // human readable, with the concrete ids/times of this run
	Step   int    `json:"step"`
	TimeNs int64  `json:"t_ns"`
}

// RunResult is what one run reports.
type RunResult struct {
	Spec       RunSpec          `json:"spec"`
	Outcome    string           `json:"outcome"`
	Hash       string           `json:"hash"`
	SchedHash  string           `json:"sched_hash"`
	StateHash  string           `json:"state_hash"`
	Steps      int              `json:"steps"`
	SimTimeNs  int64            `json:"sim_time_ns"`
	Violations []Violation      `json:"violations,omitempty"`
	Faults     map[string]int   `json:"faults,omitempty"`
	Probes     map[string]int   `json:"probes,omitempty"`
	Decisions  map[string][]int `json:"decisions,omitempty"`
	NDecisions int              `json:"n_decisions"`
	Multi      int              `json:"multi_enabled_steps"`
	TimerTies  int              `json:"timer_ties"`
	Tasks      int              `json:"tasks"`
	Config     string           `json:"config"`
	Nontrivial bool             `json:"nontrivial"`
	Unmanaged  bool             `json:"unmanaged_timer,omitempty"`
	Trace      []string         `json:"trace,omitempty"`
	HarnessErr string           `json:"harness_error,omitempty"`
	Blocked    string           `json:"-"`
}

// Env is what a scenario sees.
type Env struct {
	T    *testing.T
	S    *simrt.Sim
	F    *simnet.Fabric
	D    *simrt.Decider
	Spec RunSpec

	mu     sync.Mutex
	viol   []Violation
	faults map[string]int
	cfg    []string
	herr   string
}

// Scenario is a simulated workload together with the oracles evaluated on it.
type Scenario struct {
	Name  string
	Props []string // properties whose oracles this scenario evaluates
	Net   func(e *Env) simnet.Config
	Sim   func(e *Env) simrt.Config
	Run   func(e *Env)
}

var scenarios = map[string]*Scenario{}

// lastStates holds the abstract states of the last executed run (consumed by the worker).
var lastStates []uint64

func register(sc *Scenario) { scenarios[sc.Name] = sc }

// Choose draws a harness decision.
func (e *Env) Choose(kind string, n int) int { return e.D.Choose(kind, n) }

// Chance draws a harness coin.
func (e *Env) Chance(kind string, permille int) bool { return e.D.Chance(kind, permille) }

// Pick chooses one of the given durations.
func (e *Env) PickDur(kind string, ds ...time.Duration) time.Duration {
	return ds[e.Choose(kind, len(ds))]
}

// Fault counts a harness-level fault that actually fired.
func (e *Env) Fault(kind string) {
	e.mu.Lock()
	e.faults[kind]++
	e.mu.Unlock()
}

// Probe counts a reach probe.
func (e *Env) Probe(name string) { e.S.Probe(name) }

// Cfg records a configuration fact of this run (for evidence samples and replay files).
func (e *Env) Cfg(format string, args ...interface{}) {
	e.mu.Lock()
	e.cfg = append(e.cfg, fmt.Sprintf(format, args...))
	e.mu.Unlock()
}

// Violate records an oracle failure.
func (e *Env) Violate(prop, class, format string, args ...interface{}) {
	d := fmt.Sprintf(format, args...)
	now := e.S.Now()
	e.mu.Lock()
	e.viol = append(e.viol, Violation{Prop: prop, Class: class, Detail: d, TimeNs: int64(now)})
	e.mu.Unlock()
	e.S.Logf("VIOLATION %s %s %s", prop, class, d)
}

// HarnessError records a failure of the harness itself (never a verdict about the library).
func (e *Env) HarnessError(format string, args ...interface{}) {
	e.mu.Lock()
	if e.herr == "" {
		e.herr = fmt.Sprintf(format, args...)
	}
	e.mu.Unlock()
}

// Eps is the slack the simulator itself injected so far (timer lateness, spin-guard jumps).
func (e *Env) Eps() time.Duration { return e.S.LateTotal() }

// EpsIn is the slack that can have held up library actions between t0 and t1 (see simrt.SlackBetween).
func (e *Env) EpsIn(t0, t1 time.Duration) time.Duration { return e.S.SlackBetween(t0, t1) }

// Execute runs one simulated execution. A run that exhausts its step budget is executed again
// with four times the budget: if it still does not finish, the system makes no progress (a
// goroutine spinning through scheduling points, e.g. a select loop on a closed channel whose
// timer is re-armed in every iteration) and that is reported; otherwise the longer run counts.
func Execute(t *testing.T, spec RunSpec) *RunResult {
	res := executeOnce(t, spec)
	if res.Outcome == "stalled" && res.HarnessErr == "" {
		res.Violations = append(res.Violations, Violation{Prop: "PANIC", Class: "deadlock",
			Detail: fmt.Sprintf("nothing can run any more at simulated time %v and the scenario has not finished (a call into the library never returned); tasks: %s", time.Duration(res.SimTimeNs), res.Blocked)})
		return res
	}
	if res.Outcome != "step-budget" || res.HarnessErr != "" {
		return res
	}
	if spec.StepFactor <= 1 {
		spec.StepFactor = 4
		res = executeOnce(t, spec)
		if res.Probes != nil {
			res.Probes["step-budget-extended"]++
		}
	}
	if res.Outcome == "step-budget" && res.HarnessErr == "" {
		res.Violations = append(res.Violations, Violation{Prop: "PANIC", Class: "no-progress",
			Detail: fmt.Sprintf("the run did not finish within %d scheduler steps (four times the scenario's budget) at simulated time %v: the system spins without making progress; tasks: %s", res.Steps, time.Duration(res.SimTimeNs), res.Blocked)})
	}
	return res
}

func executeOnce(t *testing.T, spec RunSpec) (res *RunResult) {
	sc := scenarios[spec.Scenario]
	res = &RunResult{Spec: spec}
	if sc == nil {
		res.HarnessErr = "unknown scenario " + spec.Scenario
		return
	}
	defer func() {
		if r := recover(); r != nil {
			// synctest's end-of-bubble deadlock panic or a harness bug: never a verdict.
			res.HarnessErr = fmt.Sprintf("panic in run: %v", r)
		}
	}()
	synctest.Test(t, func(t *testing.T) {
		var dec *simrt.Decider
		if spec.Decisions != nil {
			dec = simrt.NewReplay(spec.Seed, spec.Decisions)
		} else {
			dec = simrt.NewDecider(spec.Seed)
		}
		e := &Env{T: t, D: dec, Spec: spec, faults: map[string]int{}}
		scfg := simrt.Config{StickyPermille: 600}
		e.S = nil
		// the scenario's configuration hooks only use e.D / e.Cfg
		if sc.Sim != nil {
			scfg = sc.Sim(e)
		}
		scfg.Trace = spec.Trace
		if spec.MaxSteps > 0 {
			scfg.MaxSteps = spec.MaxSteps
		}
		s := simrt.New(scfg, dec)
		s.StepFactor = spec.StepFactor
		defer s.Close()
		e.S = s
		ncfg := simnet.Config{}
		if sc.Net != nil {
			ncfg = sc.Net(e)
		}
		f := simnet.New(s, ncfg)
		defer f.Close()
		e.F = f
		s.Run(func() {
			// a quarter of the runs install a log target: the library's diagnostics (which format
			// their subject with reflection) are code that runs, or does not, with the application's setup
			util.Logger = nil
			if e.Choose("cfg.logger", 4) == 0 {
				util.Logger = discardLog{}
				e.Probe("logger-installed")
			}
			defer func() { util.Logger = nil }()
			sc.Run(e)
		})

		sort.Slice(s.Panics, func(i, j int) bool { return s.Panics[i].Task < s.Panics[j].Task })
		for _, p := range s.Panics {
			if p.Lib || panicOriginInLibrary(p.Stack) {
				// (a panic that escapes a library call made by a harness task is the library's
				// just as much as one in a goroutine the library started)
				e.viol = append(e.viol, Violation{Prop: "PANIC", Class: "panic", Detail: fmt.Sprintf("T%d %s at %s: %s\n%s", p.Task, p.Name, p.Site, p.Val, trimStack(p.Stack))})
			} else {
				e.HarnessError("harness task T%d %s panicked: %s\n%s", p.Task, p.Name, p.Val, p.Stack)
			}
		}
		res.Outcome = s.Outcome
		res.Hash = s.Hash()
		res.SchedHash = s.SchedHash()
		res.StateHash = s.StateHash()
		res.Steps = s.Stats.Steps
		res.SimTimeNs = int64(s.Now())
		res.Violations = e.viol
		res.Faults = map[string]int{}
		for k, v := range e.faults {
			res.Faults[k] += v
		}
		for k, v := range f.Fired {
			res.Faults[k] += v
		}
		if s.Stats.TimerLate > 0 {
			res.Faults["timer-late"] += s.Stats.TimerLate
		}
		if s.Stats.Starved > 0 {
			res.Faults["task-starve"] += s.Stats.Starved
		}
		if s.Stats.Stalled > 0 {
			res.Faults["task-stall"] += s.Stats.Stalled
		}
		if s.Stats.ClockJumps > 0 {
			res.Faults["spin-guard-jump"] += s.Stats.ClockJumps
		}
		lastStates = s.States()
		res.Probes = s.Stats.Probes
		res.Decisions = dec.Trace
		res.NDecisions = dec.Count
		res.Multi = s.Stats.MultiEnabled
		res.TimerTies = s.Stats.TimerTies
		res.Tasks = s.Stats.TasksSpawned
		res.Config = strings.Join(e.cfg, " ")
		nf := 0
		for _, v := range res.Faults {
			nf += v
		}
		res.Nontrivial = nf > 0 || res.Multi > 0
		res.HarnessErr = e.herr
		if spec.Trace {
			res.Trace = s.Trace()
		}
		if s.Outcome == "step-budget" {
			e.Probe("step-budget-exhausted")
		}
		if s.Outcome != "finished" {
			res.Blocked = strings.ReplaceAll(strings.TrimSpace(s.BlockedAtEnd), "\n", "; ")
		}
	})
	return res
}

// panicOriginInLibrary reports whether the function that panicked (the first frame below the
// runtime's panic machinery) is library code proper, not the simulator's runtime or the harness.
func panicOriginInLibrary(st string) bool {
	repo := os.Getenv("VERIF_REPO")
	if repo == "" {
		repo = "/repo"
	}
	lines := strings.Split(st, "\n")
	seenPanic := false
	for i := 0; i < len(lines); i++ {
		l := lines[i]
		if strings.HasPrefix(l, "\t") || strings.HasPrefix(l, " ") || l == "" {
			continue
		}
		if strings.HasPrefix(l, "panic(") {
			seenPanic = true
			continue
		}
		if !seenPanic || strings.HasPrefix(l, "runtime.") || strings.HasPrefix(l, "runtime/") {
			continue
		}
		// the frame is judged by the file its code lives in (an inlined closure of the library is
		// listed under the name of the harness function it was inlined into)
		file := ""
		if i+1 < len(lines) {
			file = strings.TrimSpace(lines[i+1])
		}
		if strings.Contains(file, "/knx/simrt/") || strings.Contains(file, "/knx/simnet/") {
			continue // the simulator's stand-in for a channel, lock, timer or socket operation: whoever called it panicked
		}
		return strings.HasPrefix(file, repo+"/knx/")
	}
	return false
}

func trimStack(st string) string {
	// function names only: argument values and file offsets contain addresses, which must not
	// leak into the event log (its hash identifies the run)
	lines := strings.Split(st, "\n")
	var out []string
	for _, l := range lines {
		if strings.HasPrefix(l, "\t") || strings.HasPrefix(l, " ") {
			continue
		}
		if !strings.Contains(l, "github.com/vapourismo/knx-go/knx") {
			continue
		}
		if strings.Contains(l, "/simrt.") || strings.Contains(l, "/simnet.") {
			continue
		}
		if i := strings.LastIndex(l, "("); i > 0 && strings.HasSuffix(strings.TrimSpace(l), ")") {
			l = l[:i]
		}
		out = append(out, strings.TrimSpace(l))
		if len(out) >= 10 {
			break
		}
	}
	return strings.Join(out, " | ")
}

// sortedKeys returns the keys of m in order.
func sortedKeys[V any](m map[string]V) []string {
	ks := make([]string, 0, len(m))
	for k := range m {
		ks = append(ks, k)
	}
	sort.Strings(ks)
	return ks
}

// ---------------------------------------------------------------------------------------
// Harness-side instrumented channel helpers (the harness is not rewritten by simgen).

// recvOrStop receives from ch unless stop is closed first. It follows the baton protocol of
// instrumented code: a scheduling point before, a park after a wake-up.
func recvOrStop[T any](site string, ch <-chan T, stop <-chan struct{}) (v T, ok bool, stopped bool) {
	t := simrt.Pre(site)
	select {
	case <-stop:
		stopped = true
	default:
		select {
		case v, ok = <-ch:
		case <-stop:
			stopped = true
		case <-simrt.AbortCh():
			simrt.Aborted()
		}
	}
	simrt.Post(t)
	return
}

// tryRecv polls ch once.
func tryRecv[T any](site string, ch <-chan T) (v T, ok bool, got bool) {
	t := simrt.Pre(site)
	select {
	case v, ok = <-ch:
		got = true
	default:
	}
	simrt.Post(t)
	return
}

func closeChan[T any](site string, ch chan T) { simrt.CloseChan(site, ch) }

// WaitDone parks the calling task until *done becomes true or d of simulated time has passed
// (a library call that never returns must not take the harness down with it).
func (e *Env) WaitDone(site string, d time.Duration, done func() bool) bool {
	expired := false
	ev := e.S.At(d, "deadline:"+site, func() { expired = true })
	e.S.WaitUntil(site, func() bool { return expired || done() })
	ev.Cancel()
	return done()
}

// Call runs fn in its own harness task and waits for it for at most d of simulated time.
func (e *Env) Call(name string, d time.Duration, fn func()) bool {
	fin := false
	e.S.Spawn(name, func() { fn(); fin = true })
	return e.WaitDone(name, d, func() bool { return fin })
}

// wholeDatagram is the datagram a read record stands for: what the peer transmitted, even when the
// reader's buffer was too small to hold it (every frame these scenarios transmit is far below any
// size a KNXnet/IP receiver may refuse).
func wholeDatagram(rec simnet.Rec) []byte {
	if rec.Full != nil {
		return rec.Full
	}
	return rec.Data
}

// dump renders a value without pointer addresses (violation details are part of the event log
// whose hash must not depend on where the allocator put things).
func dump(v interface{}) string {
	var b strings.Builder
	dumpValue(&b, reflect.ValueOf(v), 0)
	return b.String()
}

func dumpValue(b *strings.Builder, v reflect.Value, depth int) {
	if depth > 8 {
		b.WriteString("…")
		return
	}
	if !v.IsValid() {
		b.WriteString("nil")
		return
	}
	switch v.Kind() {
	case reflect.Ptr, reflect.Interface:
		if v.IsNil() {
			b.WriteString("nil")
			return
		}
		if v.Kind() == reflect.Ptr {
			b.WriteString("&")
		}
		dumpValue(b, v.Elem(), depth+1)
	case reflect.Struct:
		b.WriteString(v.Type().String() + "{")
		for i := 0; i < v.NumField(); i++ {
			if i > 0 {
				b.WriteString(" ")
			}
			b.WriteString(v.Type().Field(i).Name + ":")
			dumpValue(b, v.Field(i), depth+1)
		}
		b.WriteString("}")
	case reflect.Slice, reflect.Array:
		if v.Type().Elem().Kind() == reflect.Uint8 {
			n := v.Len()
			fmt.Fprintf(b, "[%d]x", n)
			for i := 0; i < n && i < 48; i++ {
				fmt.Fprintf(b, "%02x", v.Index(i).Uint())
			}
			return
		}
		b.WriteString("[")
		for i := 0; i < v.Len(); i++ {
			if i > 0 {
				b.WriteString(" ")
			}
			dumpValue(b, v.Index(i), depth+1)
		}
		b.WriteString("]")
	case reflect.String:
		fmt.Fprintf(b, "%q", v.String())
	case reflect.Bool:
		fmt.Fprintf(b, "%v", v.Bool())
	case reflect.Int, reflect.Int8, reflect.Int16, reflect.Int32, reflect.Int64:
		fmt.Fprintf(b, "%d", v.Int())
	case reflect.Uint, reflect.Uint8, reflect.Uint16, reflect.Uint32, reflect.Uint64:
		fmt.Fprintf(b, "%d", v.Uint())
	default:
		b.WriteString(v.Type().String())
	}
}

// discardLog is a log target that formats nothing and keeps nothing.
type discardLog struct{}

func (discardLog) Printf(string, ...interface{}) {}
