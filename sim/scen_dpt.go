package sim

import (
	"bytes"
	"fmt"
	"go/ast"
	"go/parser"
	"go/token"
	"os"
	"path/filepath"
	"reflect"
	"regexp"
	"sort"
	"strings"
	"time"

	"github.com/vapourismo/knx-go/knx/dpt"
	"github.com/vapourismo/knx-go/knx/simrt"
)

// C19: the datapoint registry. The only shared mutable state of the codec half is the
// package-level prototype table read by Produce/ListSupportedTypes from arbitrary caller
// goroutines. 1..16 tasks perform seeded sequences of Produce / Unpack / Pack / String /
// ListSupportedTypes, interleaved by the scheduler at call granularity (the package has no
// finer scheduling point; what happens inside a call under true parallelism is the business of
// the free-running -race mode, see check-race).

func init() {
	register(&Scenario{Name: "dpt", Props: []string{"C19"}, Run: runDPT})
}

var dptNameRe = regexp.MustCompile(`^([0-9]+)\.([0-9]{3})$`)

// exportedDPTTypes parses the package source for exported DPT_* type declarations.
func exportedDPTTypes() (map[string]bool, error) {
	repo := os.Getenv("VERIF_REPO")
	if repo == "" {
		repo = "/repo"
	}
	dir := filepath.Join(repo, "knx", "dpt")
	fset := token.NewFileSet()
	ents, err := os.ReadDir(dir)
	if err != nil {
		return nil, err
	}
	out := map[string]bool{}
	for _, en := range ents {
		if !strings.HasSuffix(en.Name(), ".go") || strings.HasSuffix(en.Name(), "_test.go") {
			continue
		}
		f, err := parser.ParseFile(fset, filepath.Join(dir, en.Name()), nil, 0)
		if err != nil {
			return nil, err
		}
		for _, d := range f.Decls {
			gd, ok := d.(*ast.GenDecl)
			if !ok || gd.Tok != token.TYPE {
				continue
			}
			for _, sp := range gd.Specs {
				ts := sp.(*ast.TypeSpec)
				if strings.HasPrefix(ts.Name.Name, "DPT_") && ast.IsExported(ts.Name.Name) {
					out[ts.Name.Name] = true
				}
			}
		}
	}
	return out, nil
}

type dptInst struct {
	name string
	d    dpt.Datapoint
	want []byte // what Pack() must yield: the encoding right after this task's last Unpack
	str  string
}

func runDPT(e *Env) {
	s := e.S
	ntasks := 1 + e.Choose("cfg.tasks", 16)
	nops := 5 + e.Choose("cfg.ops", 40)
	favourite, favouriteN := "", 0 // (set below, once the names are known)
	e.Cfg("tasks=%d ops=%d", ntasks, nops)
	s.SetConfig(func(sc *simrt.Config) {
		sc.StickyPermille = []int{0, 300, 700}[e.Choose("cfg.sticky", 3)]
		sc.MaxSteps = 60000
	})

	if e.Choose("wl.junkfirst", 2) == 1 {
		// an application may well ask for a name the registry does not have before it does anything
		// else (what the registry builds lazily is then built after a failed lookup)
		if d, ok := dpt.Produce("0.000"); ok || d != nil {
			e.Violate("C19", "unknown-name-produced", "Produce(\"0.000\") did not report the name as unknown")
		}
	}
	names := dpt.ListSupportedTypes()
	sort.Strings(names)
	if len(names) > 0 && e.Choose("cfg.favourite", 6) == 0 {
		favourite, favouriteN = names[e.Choose("cfg.favname", len(names))], 257+e.Choose("cfg.favn", 200)
	}
	// static clauses (once per run): names well formed, unique, producible, correctly typed; every
	// exported type reachable
	seen := map[string]bool{}
	reach := map[string]bool{}
	for _, n := range names {
		if seen[n] {
			e.Violate("C19", "name-duplicate", "ListSupportedTypes lists %q twice", n)
		}
		seen[n] = true
		m := dptNameRe.FindStringSubmatch(n)
		if m == nil {
			e.Violate("C19", "name-format:"+n, "registry lists %q, which is not of the form main.sub with a three-digit sub-number", n)
		}
		d, ok := dpt.Produce(n)
		if !ok || d == nil {
			e.Violate("C19", "listed-not-producible", "registry lists %q but Produce reports it as unknown", n)
			continue
		}
		tn := reflect.TypeOf(d).Elem().Name()
		reach[tn] = true
		want := "DPT_" + strings.Replace(n, ".", "", 1)
		if tn != want {
			e.Violate("C19", "wrong-type-for-name", "Produce(%q) yields a %s, expected %s", n, tn, want)
		}
	}
	if exp, err := exportedDPTTypes(); err != nil {
		e.HarnessError("cannot parse the dpt package: %v", err)
	} else {
		var missing []string
		for tn := range exp {
			if !reach[tn] {
				missing = append(missing, tn)
			}
		}
		sort.Strings(missing)
		for _, tn := range missing {
			e.Violate("C19", "type-not-registered", "exported datapoint type %s is not reachable through the registry", tn)
		}
		e.Probe(fmt.Sprintf("exported-types-%d", len(exp)/50*50))
	}
	if len(names) == 0 {
		return
	}
	// dynamic clauses: interleaved callers
	var allPtrs []uintptr
	var keep []dpt.Datapoint // every instance stays reachable for the whole run, so that the allocator cannot hand an address out twice
	left := ntasks
	for k := 0; k < ntasks; k++ {
		k := k
		s.Spawn(fmt.Sprintf("caller%d", k), func() {
			defer func() { left-- }()
			var mine []*dptInst
			verify := func(where string) {
				for _, in := range mine {
					got := in.d.Pack()
					if !bytes.Equal(got, in.want) {
						e.Violate("C19", "instance-changed", "caller %d: instance of %s holds %x, it last decoded %x (%s)", k, in.name, got, in.want, where)
					}
					if st := in.d.String(); st != in.str {
						e.Violate("C19", "instance-changed", "caller %d: instance of %s renders %q, it rendered %q after its last decode (%s)", k, in.name, st, in.str, where)
					}
				}
			}
			produce := func(n string) {
				d, ok := dpt.Produce(n)
				if !ok || d == nil {
					e.Violate("C19", "listed-not-producible", "caller %d: Produce(%q) reports unknown", k, n)
					return
				}
				zero := reflect.New(reflect.TypeOf(d).Elem()).Interface()
				if !reflect.DeepEqual(d, zero) {
					e.Violate("C19", "fresh-instance-not-zero", "caller %d: Produce(%q) returned %s, not the type's zero value", k, n, dump(d))
				}
				p := reflect.ValueOf(d).Pointer()
				if reflect.TypeOf(d).Elem().Size() > 0 {
					for _, q := range allPtrs {
						if q == p {
							e.Violate("C19", "instance-shared", "caller %d: Produce(%q) returned a pointer that an earlier call already returned", k, n)
						}
					}
				}
				allPtrs = append(allPtrs, p)
				keep = append(keep, d)
				in := &dptInst{name: n, d: d}
				in.want = d.Pack()
				in.str = d.String()
				mine = append(mine, in)
			}
			if k == 0 && favourite != "" {
				// several hundred instances of one name, all kept, the first of them written to: the
				// 257th (and every other) must be as fresh as the first was
				for i := 0; i < favouriteN; i++ {
					produce(favourite)
					if i == 0 && len(mine) == 1 {
						p := mine[0].d.Pack()
						for j := range p {
							p[j] = byte(0x11 * (j + 1))
						}
						if len(p) == 1 {
							p[0] &= 0x3f
						} else if len(p) > 1 {
							p[0] = 0
						}
						if mine[0].d.Unpack(p) == nil {
							mine[0].want = mine[0].d.Pack()
							mine[0].str = mine[0].d.String()
						}
					}
					if i%64 == 0 {
						simrt.Yield("dpt-op")
					}
				}
				e.Probe("one-name-300-instances")
			}
			for i := 0; i < nops; i++ {
				simrt.Yield("dpt-op")
				switch op := e.Choose("wl.op", 10); {
				case op < 4: // produce a listed name
					produce(names[e.Choose("wl.name", len(names))])
				case op < 7: // decode into one of my instances
					if len(mine) == 0 {
						continue
					}
					in := mine[e.Choose("wl.inst", len(mine))]
					plen := len(in.want)
					if e.Choose("wl.longer", 4) == 0 {
						plen += 1 + e.Choose("wl.longerby", 14) // (variable-length types; the others turn it down)
					}
					payload := make([]byte, plen)
					for j := range payload {
						payload[j] = byte(e.Choose("wl.byte", 256))
					}
					if len(payload) > 0 && e.Choose("wl.hdr0", 2) == 0 {
						payload[0] &= 0x3f
						if len(payload) > 1 {
							payload[0] = 0
						}
					}
					before := append([]byte(nil), payload...)
					if err := in.d.Unpack(payload); err != nil {
						// rejected payloads leave us in an unknown but private state: re-read it
					}
					if !bytes.Equal(before, payload) {
						// the caller's buffer is shared state too: a second decode of it (into another
						// instance, by another goroutine) must see what the first one saw
						e.Violate("C19", "decode-modifies-input", "caller %d: %s.Unpack changed the payload it was given from %x to %x", k, in.name, before, payload)
					}
					in.want = in.d.Pack()
					in.str = in.d.String()
					// the caller's buffer is the caller's: reused for the next telegram at once
					for j := range payload {
						payload[j] ^= 0x5a
					}
					if got := in.d.Pack(); !bytes.Equal(got, in.want) {
						e.Violate("C19", "instance-aliases-payload", "caller %d: instance of %s changed from %x to %x when the buffer it had been decoded from was overwritten", k, in.name, in.want, got)
					} else if st := in.d.String(); st != in.str {
						e.Violate("C19", "instance-aliases-payload", "caller %d: instance of %s renders %q instead of %q after the buffer it had been decoded from was overwritten", k, in.name, st, in.str)
					}
				case op < 8: // an unknown name
					junk := []string{"", "1", "1.", ".001", "1.0011", "01.001", "1.001 ", "999.999", "dpt", "1,001", "0.000", "1.1", "9.0010"}[e.Choose("wl.junk", 13)]
					if e.Choose("wl.junk2", 2) == 0 {
						junk = fmt.Sprintf("%d.%03d", 200+e.Choose("wl.jm", 50), e.Choose("wl.js", 1000))
					}
					if e.Choose("wl.junk3", 3) == 0 {
						// a registered name with something behind or in front of it
						n := names[e.Choose("wl.name", len(names))]
						junk = []string{n + "0", n + "\x00", n + "\x00\x00\x00", n + " RGBW", "0" + n, n + ".", n[:len(n)-1]}[e.Choose("wl.junk3k", 7)]
					}
					if seen[junk] {
						continue
					}
					if d, ok := dpt.Produce(junk); ok || d != nil {
						e.Violate("C19", "unknown-name-produced", "caller %d: Produce(%q) did not report the name as unknown (ok=%v value=%s)", k, junk, ok, dump(d))
					}
				case op < 9:
					l := dpt.ListSupportedTypes()
					if len(l) != len(names) {
						e.Violate("C19", "list-unstable", "ListSupportedTypes returned %d names, then %d", len(names), len(l))
					}
					got := append([]string(nil), l...)
					sort.Strings(got)
					if !reflect.DeepEqual(got, names) {
						e.Violate("C19", "list-unstable", "ListSupportedTypes no longer returns the set of names it returned at first (e.g. %d names, first difference near %q)", len(got), firstDiff(got, names))
					}
					// the caller does with its list what it likes (filter in place, overwrite, sort):
					// that must not reach the registry or anybody else's list
					switch e.Choose("wl.listuse", 3) {
					case 1:
						for j := range l {
							l[j] = "scribbled"
						}
					case 2:
						sort.Sort(sort.Reverse(sort.StringSlice(l)))
						if len(l) > 2 {
							l[0], l[1] = l[1], l[1]
						}
					}
				default:
					verify("periodic check")
				}
			}
			verify("end of run")
		})
	}
	e.WaitDone("callers", time.Second, func() bool { return left == 0 })
	e.Probe(fmt.Sprintf("instances-%d+", len(keep)/100*100))
}

func firstDiff(a, b []string) string {
	for i := range a {
		if i >= len(b) || a[i] != b[i] {
			return a[i]
		}
	}
	if len(b) > len(a) {
		return b[len(a)]
	}
	return ""
}
