package sim

import (
	"fmt"
	"net"
	"strings"
	"time"

	"github.com/vapourismo/knx-go/knx"
	"github.com/vapourismo/knx-go/knx/cemi"
	"github.com/vapourismo/knx-go/knx/simnet"
	"github.com/vapourismo/knx-go/knx/simrt"
)

const (
	groupIP   = "224.0.23.12"
	peerIP    = "10.0.0.3"
	routerLbl = "udp:" + groupIP // label prefix of the client's socket (bound to the group address)
)

type rtCfg struct {
	Retain      uint
	P           time.Duration
	Senders     int
	SendsEach   int
	Think       bool
	WriteErr    int
	Busy        int
	Lost        int
	Inbound     int
	Junk        int  // datagrams that are no frames at all, sent between the indications
	LostOverlap bool // lost indications may arrive while an earlier resend is still going out
	Reader      string
	CloseEarly  bool
	Sticky      int
	PCT         int
	TimerLate   int
	LateMax     time.Duration
	Starve      int
	StarveMax   time.Duration
	Stall       int
	StallMax    time.Duration
	Storm       bool
	SlowWrite   int // permille of the client's writes that stall inside the call
	SlowMax     time.Duration
	MaxSteps    int
}

func (c rtCfg) String() string {
	return fmt.Sprintf("retain=%d P=%v senders=%dx%d think=%v werr=%d busy=%d storm=%v lost=%d inbound=%d reader=%s closeearly=%v sticky=%d pct=%d tlate=%d starve=%d/%v slowwrite=%d/%v",
		c.Retain, c.P, c.Senders, c.SendsEach, c.Think, c.WriteErr, c.Busy, c.Storm, c.Lost, c.Inbound, c.Reader, c.CloseEarly, c.Sticky, c.PCT, c.TimerLate, c.Starve, c.StarveMax, c.SlowWrite, c.SlowMax)
}

func drawRtCfg(e *Env) rtCfg {
	var c rtCfg
	p := e.Spec.Prop
	c.Retain = []uint{0, 1, 2, 3, 5, 8, 32, 64}[e.Choose("cfg.retain", 8)]
	c.P = e.PickDur("cfg.P", 20*time.Millisecond, 5*time.Millisecond, 0)
	if e.Choose("cfg.Psmall", 5) == 0 {
		c.P = []time.Duration{500 * time.Microsecond, time.Millisecond, 2 * time.Millisecond}[e.Choose("cfg.Psmallv", 3)] // the short end of the range
	}
	c.Senders = 1 + e.Choose("cfg.senders", 8)
	c.SendsEach = 1 + e.Choose("cfg.sends", 12)
	c.Think = e.Choose("cfg.think", 2) == 1
	c.Sticky = []int{600, 0, 850, 300}[e.Choose("cfg.sticky", 4)]
	c.PCT = []int{0, 0, 0, 0, 2, 5}[e.Choose("cfg.pct", 6)] // priority-based scheduling in a third of the runs
	c.Reader = []string{"ready", "stalled", "intermittent", "absent"}[e.Choose("cfg.reader", 4)]
	c.MaxSteps = 40000
	shape := e.Choose("cfg.shape", 10)
	if shape >= 3 && e.Choose("cfg.tlate", 3) == 2 {
		c.TimerLate = 100
		c.LateMax = 2 * time.Millisecond
	}
	switch p {
	case "C13":
		if shape >= 4 {
			c.WriteErr = []int{0, 0, 50, 200}[e.Choose("cfg.werr13", 4)]
			if e.Choose("cfg.slow", 3) == 0 {
				c.SlowWrite = []int{100, 400}[e.Choose("cfg.slowp", 2)]
				c.SlowMax = e.PickDur("cfg.slowmax", 3*time.Millisecond, 15*time.Millisecond, 40*time.Millisecond)
			}
		}
		c.Busy = e.Choose("cfg.busy", 8)
		c.Storm = e.Choose("cfg.storm", 3) == 0
		if shape == 9 {
			c.Senders, c.SendsEach = 1+e.Choose("cfg.senders8", 8), 25
			c.MaxSteps = 120000
		}
		if shape < 2 {
			c.Busy = 0
		}
		c.Inbound = e.Choose("cfg.inbound", 4)
		if shape >= 5 && shape != 9 {
			c.Lost = e.Choose("cfg.lost13", 3) // resent messages are paced like any other
			if c.Lost >= 2 && e.Choose("cfg.lostoverlap13", 2) == 0 {
				c.LostOverlap = true // a second lost indication while the first resend is under way
				c.Lost += e.Choose("cfg.lostmore13", 3)
			}
		}
		c.CloseEarly = e.Choose("cfg.closeearly13", 5) == 0 // Close inside a busy window must not strand the senders
	case "C14":
		c.Lost = e.Choose("cfg.lost", 6)
		c.Busy = e.Choose("cfg.busy4", 4)
		c.WriteErr = []int{0, 0, 100, 300}[e.Choose("cfg.werr", 4)]
		c.Inbound = e.Choose("cfg.inbound", 12)
		c.Junk = e.Choose("cfg.junk", 4)
		c.LostOverlap = c.Lost >= 2 && e.Choose("cfg.lostoverlap", 5) == 0 // (the resend oracle stops judging where resends overlap; deadlock freedom is still judged)
		c.CloseEarly = e.Choose("cfg.closeearly", 4) == 0
		if e.Choose("cfg.starve14", 4) == 0 {
			c.Starve = []int{100, 300, 700}[e.Choose("cfg.starvep", 3)]
			c.StarveMax = e.PickDur("cfg.starvemax", time.Millisecond, 20*time.Millisecond, 100*time.Millisecond)
		}
		if shape == 9 {
			c.Senders, c.SendsEach = 1+e.Choose("cfg.senders4", 4), 300/4
			c.MaxSteps = 150000
		}
	case "C17":
		if e.Choose("cfg.stall", 4) == 0 {
			c.Stall = []int{3, 10, 30}[e.Choose("cfg.stallp", 3)]
			c.StallMax = e.PickDur("cfg.stallmax", time.Millisecond, 10*time.Millisecond)
		}
		c.Inbound = 2 + e.Choose("cfg.inbound64", 63)
		c.Junk = e.Choose("cfg.junk17", 6)
		c.Senders = e.Choose("cfg.senders2", 2)
		c.Busy, c.Lost = 0, 0
		if e.Choose("cfg.starve", 3) == 0 {
			c.Starve = []int{100, 300, 700}[e.Choose("cfg.starvep", 3)]
			c.StarveMax = e.PickDur("cfg.starvemax", time.Millisecond, 20*time.Millisecond, 2*time.Second)
		}
	default:
		c.Busy = e.Choose("cfg.busy4", 4)
		c.Lost = e.Choose("cfg.lost4", 4)
		c.Inbound = e.Choose("cfg.inbound", 12)
	}
	return c
}

// heldMsg is a message the application received, with what it looked like then.
type heldMsg struct {
	m   cemi.Message
	was string
	id  int
}

type rtSend struct {
	ID   int
	Task int
	Inv  Stamp
	Ret  Stamp
	Done bool
	OK   bool
	Err  string
}

type rtBusy struct {
	Wait    uint16
	Control uint16
	SentAt  Stamp
}

type rtLost struct {
	Count  uint16
	SentAt Stamp
}

type rtRun struct {
	e                  *Env
	c                  rtCfg
	rt                 *knx.Router
	peer               *simnet.UDPConn
	group              *net.UDPAddr
	sends              []*rtSend
	deliv              []Delivery
	busy               []rtBusy
	lost               []rtLost
	inIDs              []int
	nextID             int
	sendersLeft        int
	stimLeft           int
	drain              bool
	closed             bool
	closeInv, closeRet Stamp
	inboundEnd         *Stamp
	stop               chan struct{}
	locks              []simrt.LockEvent
	lockAt             []Stamp
	lateSends          []*rtSend
	postClose          []*rtSend // Sends issued right after Close returned
	held               []heldMsg
	settled            Stamp
}

func (r *rtRun) newID() int { r.nextID++; return r.nextID }

func rtMessage(id int) cemi.Message {
	return &cemi.LDataInd{LData: cemi.LData{
		Control1:    0xbc,
		Control2:    0xe0,
		Source:      0x1105,
		Destination: uint16(id),
		Data:        &cemi.AppData{Command: cemi.GroupValueWrite, Data: []byte{0, byte(id >> 8), byte(id)}},
	}}
}

func init() {
	register(&Scenario{Name: "router", Props: []string{"C13", "C14", "C17"}, Run: runRouter})
}

func runRouter(e *Env) {
	c := drawRtCfg(e)
	e.Cfg("%s", c.String())
	e.S.SetConfig(func(sc *simrt.Config) {
		sc.StickyPermille = c.Sticky
		sc.PCTDepth = c.PCT
		sc.LatePermille = c.TimerLate
		sc.LateMax = c.LateMax
		sc.StarvePermille = c.Starve
		sc.StarveMax = c.StarveMax
		sc.StallPermille = c.Stall
		sc.StallMax = c.StallMax
		if e.Spec.MaxSteps == 0 {
			sc.MaxSteps = c.MaxSteps
		}
	})
	e.F.SetLink(clientIP, groupIP, simnet.Link{DelayMin: 100 * time.Microsecond, WriteErrPermille: c.WriteErr, SlowWritePermille: c.SlowWrite, SlowWriteMax: c.SlowMax})
	e.F.SetLink(peerIP, groupIP, simnet.Link{DelayMin: 100 * time.Microsecond})
	r := &rtRun{e: e, c: c, stop: make(chan struct{}), nextID: 0x100}
	r.group = &net.UDPAddr{IP: net.ParseIP(groupIP).To4(), Port: gwPort}
	r.peer = e.F.ListenUDPOn(peerIP, gwPort)
	r.peer.JoinGroupIP(r.group.IP)
	e.S.Spawn("peer-rx", func() { // drain what the peer receives
		buf := make([]byte, 2048)
		for {
			if _, _, err := r.peer.ReadFromUDP(buf); err != nil {
				return
			}
		}
	})
	e.S.SetOnLock(func(ev simrt.LockEvent) {
		r.locks = append(r.locks, ev)
		r.lockAt = append(r.lockAt, e.Stamp())
	})
	rt, err := knx.NewRouter(fmt.Sprintf("%s:%d", groupIP, gwPort), knx.RouterConfig{RetainCount: c.Retain, PostSendPauseDuration: c.P})
	if err != nil {
		e.HarnessError("NewRouter: %v", err)
		return
	}
	r.rt = rt
	s := e.S
	if c.Reader != "absent" {
		s.Spawn("reader", r.reader)
	}
	r.sendersLeft = c.Senders
	for k := 0; k < c.Senders; k++ {
		s.Spawn(fmt.Sprintf("sender%d", k), func() {
			for i := 0; i < c.SendsEach; i++ {
				if c.Think && e.Choose("wl.think", 3) == 0 {
					s.SleepFor(time.Duration(1+e.Choose("wl.thinkamt", 40)) * time.Millisecond)
				}
				if e.Choose("wl.sendnil", 25) == 0 {
					// an application error: rejected, and without consequences for anybody else
					if err := r.rt.Send(nil); err == nil {
						e.Violate("C14", "nil-message-accepted", "Send(nil) reported success")
					}
					e.Fault("send-nil")
				}
				if e.Choose("wl.sendbad", 25) == 0 {
					// another application error: a frame without a transport unit cannot be encoded. The
					// caller gets an error or a panic of its own making - which it survives here - and
					// nobody else gets anything: the client goes on working
					func() {
						defer func() {
							if r := recover(); r != nil {
								if simrt.IsAbort(r) {
									panic(r) // the run is over: the simulator is unwinding this task
								}
								e.Probe("unencodable-send-panicked")
							}
						}()
						if err := r.rt.Send(&cemi.LDataInd{}); err == nil {
							e.Violate("C14", "unencodable-message-accepted", "Send of an L_Data frame without a transport unit reported success")
						}
					}()
					e.Fault("send-unencodable")
				}
				r.doSend(false)
			}
			r.sendersLeft--
		})
	}
	if c.Busy+c.Lost+c.Inbound+c.Junk > 0 {
		r.stimLeft++
		s.Spawn("peer", func() { r.peerActions(); r.stimLeft-- })
	}
	if c.CloseEarly {
		s.Spawn("closer", func() {
			s.SleepFor(time.Duration(e.Choose("flt.closeat", 300)) * time.Millisecond)
			r.doClose()
		})
	}
	// wait for the workload
	per := c.P + time.Millisecond + c.SlowMax + c.StarveMax               // what one transmission may take: pause, slow write, an unlock goroutine that starts late
	lostGap := time.Duration(70*(c.Senders+1))*per + 500*time.Millisecond // see peerActions
	deadline := s.Now() + time.Duration(c.Senders*c.SendsEach+10)*(per+60*time.Millisecond) + time.Duration(c.Busy+c.Lost+c.Inbound+c.Junk)*time.Second + time.Duration(c.Lost)*lostGap
	for s.Now() < deadline {
		if r.sendersLeft == 0 && r.stimLeft == 0 {
			break
		}
		s.SleepFor(10 * time.Millisecond)
	}
	r.drain = true
	// (the peer stops at its next action once drain is set; nothing may arrive after the settle point)
	e.WaitDone("peer", lostGap+time.Second, func() bool { return r.stimLeft == 0 })
	s.SleepFor(2*time.Second + time.Duration(c.Retain+65)*per + 2*c.StarveMax) // long enough for any resend to finish and any late goroutine to start
	r.settled = e.Stamp()
	// the client must still be able to send
	if !r.closed {
		e.F.SetLink(clientIP, groupIP, simnet.Link{DelayMin: 100 * time.Microsecond})
		e.Call("probe-send", 10*time.Second, func() { r.doSend(true) })
		s.SleepFor(c.P + 60*time.Millisecond)
		e.Call("final-close", 10*time.Second, r.doClose)
	}
	// the Sends issued right after Close get the time any pending unlock may legitimately take
	// (pause, slow write, busy window, a goroutine that starts late)
	e.WaitDone("post-close-sends", time.Duration(c.Senders+2)*per+200*time.Millisecond+2*c.StarveMax, func() bool {
		for _, pc := range r.postClose {
			if !pc.Done {
				return false
			}
		}
		return true
	})
	s.SleepFor(c.P + 200*time.Millisecond + c.StarveMax)
	closeChan("stop", r.stop)
	simrt.Yield("end")
	checkRouter(r)
}

func (r *rtRun) doSend(late bool) *rtSend {
	id := r.newID()
	call := &rtSend{ID: id, Inv: r.e.Stamp(), Task: r.e.S.CurrentID()}
	if late {
		r.lateSends = append(r.lateSends, call)
	} else {
		r.sends = append(r.sends, call)
	}
	err := r.rt.Send(rtMessage(id))
	call.Ret = r.e.Stamp()
	call.Done = true
	call.OK = err == nil
	if err != nil {
		call.Err = err.Error()
	}
	r.e.S.Logf("rsend id=%d ok=%v", id, call.OK)
	return call
}

func (r *rtRun) doClose() {
	if r.closed {
		return
	}
	r.closed = true
	r.closeInv = r.e.Stamp()
	r.e.Fault("close-at-step")
	r.rt.Close()
	r.closeRet = r.e.Stamp()
	// a Send after Close must still return (with an error): it runs in its own task so that a
	// client that has deadlocked shows up in the oracle instead of wedging the harness
	id := r.newID()
	call := &rtSend{ID: id}
	r.postClose = append(r.postClose, call)
	r.e.S.Spawn("post-close-send", func() {
		call.Inv, call.Task = r.e.Stamp(), r.e.S.CurrentID()
		err := r.rt.Send(rtMessage(id))
		call.Ret, call.Done, call.OK = r.e.Stamp(), true, err == nil
	})
}

func (r *rtRun) reader() {
	e, c := r.e, r.c
	in := r.rt.Inbound()
	for {
		if !r.drain {
			switch c.Reader {
			case "stalled":
				e.Fault("reader-stall")
				e.S.WaitUntil("reader-stalled", func() bool { return r.drain })
			case "intermittent":
				if e.Choose("wl.rstall", 3) == 0 {
					e.Fault("reader-stall")
					e.S.SleepFor(time.Duration(1+e.Choose("wl.rstallamt", 30)) * time.Millisecond)
				}
			}
		}
		m, ok, stopped := recvOrStop("reader", in, r.stop)
		if stopped {
			return
		}
		if !ok {
			st := e.Stamp()
			r.inboundEnd = &st
			return
		}
		d := Delivery{ID: msgID(m), At: e.Stamp()}
		if d.ID < 0 {
			d.Msg = dump(m)
		}
		r.deliv = append(r.deliv, d)
		r.held = append(r.held, heldMsg{m, dump(m), d.ID}) // the application keeps what it received
		e.S.Logf("rdeliver id=%d", d.ID)
	}
}

func (r *rtRun) peerSend(b []byte) { r.peer.WriteToUDP(b, r.group) }

// peerActions plays the other routers on the multicast group.
func (r *rtRun) peerActions() {
	e, c := r.e, r.c
	s := e.S
	type act struct{ kind string }
	var acts []act
	for i := 0; i < c.Busy; i++ {
		acts = append(acts, act{"busy"})
	}
	for i := 0; i < c.Lost; i++ {
		acts = append(acts, act{"lost"})
	}
	for i := 0; i < c.Inbound; i++ {
		acts = append(acts, act{"ind"})
	}
	for i := 0; i < c.Junk; i++ {
		acts = append(acts, act{"junk"})
	}
	// seeded shuffle
	for i := len(acts) - 1; i > 0; i-- {
		j := e.Choose("wl.shuffle", i+1)
		acts[i], acts[j] = acts[j], acts[i]
	}
	lastLost := time.Duration(-1 << 40)
	for _, a := range acts {
		if r.closed || r.drain {
			return
		}
		switch a.kind {
		case "ind":
			if e.Choose("wl.indgap", 3) != 0 {
				s.SleepFor(time.Duration(e.Choose("wl.indgapamt", 20)) * time.Millisecond)
			}
			id := r.newID()
			r.inIDs = append(r.inIDs, id)
			c0 := idCEMI(0x29, id)
			switch e.Choose("wl.indshape", 4) {
			case 1: // with additional information (a field the decoder handles on its own)
				n := []int{1, 4, 40, 255}[e.Choose("wl.indinfo", 4)]
				info := make([]byte, n)
				for i := range info {
					info[i] = byte(id + 3*i)
				}
				c0 = mkLData(0x29, 0xbc, 0xe0, 0x1105, uint16(id), 2, []byte{0, byte(id >> 8), byte(id)}, info)
			case 2: // another priority, repeat flag, hop count (none of which the client may act on)
				c0 = mkLData(0x29, uint8(0x90|e.Choose("wl.indprio", 4)<<2|e.Choose("wl.indlow", 4)), uint8(0x80|e.Choose("wl.indhop", 8)<<4), 0x1105, uint16(id), 2, []byte{0, byte(id >> 8), byte(id)}, nil)
			}
			r.peerSend(mkRoutingInd(c0))
		case "junk":
			// something undecodable right behind whatever came last: it must vanish without a trace
			var b []byte
			switch e.Choose("wl.junkkind", 4) {
			case 0:
			case 1:
				b = []byte{6, 0x10, 5}
			case 2:
				b = mkRoutingInd(idCEMI(0x29, 0x7777))
				b = b[:len(b)-1-e.Choose("wl.junkcut", 6)] // a truncated indication
			case 3:
				b = []byte{0xff, 0xfe, 0xfd, 0xfc, 0xfb, 0xfa, 0xf9, 0xf8}
			}
			e.Fault("junk-datagram")
			r.peerSend(b)
		case "busy":
			if !(c.Storm && e.Choose("flt.stormgap", 2) == 0) {
				s.SleepFor(time.Duration(e.Choose("flt.busygap", 120)) * time.Millisecond)
			}
			// (values whose low octet alone is below the 50 ms cap: 256, 260, 300, 0x0a00)
			wait := []uint16{0, 1, 10, 30, 50, 100, 500, 256, 260, 300, 0x0a00, 0xffff}[e.Choose("flt.busywait", 12)]
			ctl := uint16(e.Choose("flt.busyctl", 2))
			if ctl == 1 && e.Choose("flt.busyctlv", 2) == 1 {
				ctl = 0xffff
			}
			e.Fault("routing-busy")
			r.busy = append(r.busy, rtBusy{Wait: wait, Control: ctl, SentAt: e.Stamp()})
			r.peerSend(mkRoutingBusy(devState(e), wait, ctl))
		case "lost":
			// keep lost indications isolated: the previous resend has certainly finished
			gap := time.Duration(70*(c.Senders+1))*(c.P+time.Millisecond+c.SlowMax+c.StarveMax) + 400*time.Millisecond
			if d := lastLost + gap - s.Now(); d > 0 && !c.LostOverlap {
				s.SleepFor(d)
			}
			s.SleepFor(time.Duration(e.Choose("flt.lostgap", 60)) * time.Millisecond)
			ret := int(c.Retain)
			if ret == 0 {
				ret = 32
			}
			k := []int{0, 1, 2, 3, 5, ret - 1, ret, ret + 1, 100, 65535}[e.Choose("flt.lostk", 10)]
			if k < 0 {
				k = 0
			}
			e.Fault("routing-lost")
			r.lost = append(r.lost, rtLost{Count: uint16(k), SentAt: e.Stamp()})
			r.peerSend(mkRoutingLost(devState(e), uint16(k)))
			lastLost = s.Now()
		}
	}
}

// ---------------------------------------------------------------------------------------
// oracles

type rtTx struct {
	At     Stamp
	ID     int
	Task   int
	Req    Stamp // when the transmitting task asked for the send lock
	Repeat bool
	Failed bool // the write failed: the frame never left (and is not retained)
}

func checkRouter(r *rtRun) {
	e, c := r.e, r.c
	for _, h := range r.held {
		if now := dump(h.m); now != h.was {
			e.Violate("C14", "inbound-message-changed-later", "the routing indication id=%d handed to the application read %s when it arrived and reads %s at the end of the run", h.id, h.was, now)
			break
		}
	}
	if r.closed && r.closeRet.Seq == 0 {
		e.Violate("C14", "close-hangs", "Router.Close invoked at %v never returned", r.closeInv.T)
		r.closeRet = Stamp{T: 1 << 60, Seq: ^uint64(0) >> 1}
	}
	eps := e.Eps()
	var txs []rtTx
	var rx []wireEv
	seen := map[int]bool{}
	for _, rec := range e.F.Records() {
		if !strings.HasPrefix(rec.Sock, routerLbl) {
			continue
		}
		switch rec.Kind {
		case "send", "werr":
			f := parseFrame(rec.Data)
			if !f.OK {
				e.Violate("C16", "client-emitted-malformed-frame", "router client wrote %x", rec.Data)
				continue
			}
			if f.Svc != svcRoutingInd {
				e.Violate("C14", "unexpected-frame", "router client wrote a frame that is not a routing indication: %s", f)
				continue
			}
			id := cemiID(f.CEMI)
			txs = append(txs, rtTx{At: Stamp{rec.T, rec.Seq}, ID: id, Task: rec.Task, Repeat: seen[id], Failed: rec.Kind == "werr"})
			if rec.Kind == "send" {
				seen[id] = true
			}
		case "read":
			rx = append(rx, wireEv{At: Stamp{rec.T, rec.Seq}, F: parseFrame(wholeDatagram(rec))})
		}
	}
	// which mutex is the send lock: the one application senders ask for
	var sendMu *simrt.Mutex
	harness := map[int]bool{}
	for _, s := range append(append(append([]*rtSend(nil), r.sends...), r.lateSends...), r.postClose...) {
		harness[s.Task] = true
	}
	for _, ev := range r.locks {
		if ev.Kind == "request" && harness[ev.Task] {
			sendMu = ev.M
			break
		}
	}
	// when each transmitting task got in line for the send lock: the latest "queued" event (or, if
	// the lock was free, "acquire" event) of the same task before the transmission
	inLine := func(task int, before uint64) Stamp {
		// latest "queued" of the task before the instant; an "acquire" counts only if the task
		// did not queue for it
		for j := len(r.locks) - 1; j >= 0; j-- {
			ev := r.locks[j]
			if ev.M != sendMu || ev.Task != task || r.lockAt[j].Seq >= before {
				continue
			}
			switch ev.Kind {
			case "queued":
				return r.lockAt[j]
			case "acquire":
				for k := j - 1; k >= 0; k-- {
					if r.locks[k].M == sendMu && r.locks[k].Task == task {
						if r.locks[k].Kind == "queued" {
							return r.lockAt[k]
						}
						break
					}
				}
				return r.lockAt[j]
			}
		}
		return Stamp{}
	}
	for i := range txs {
		txs[i].Req = inLine(txs[i].Task, txs[i].At.Seq)
	}
	byID := map[int]*rtSend{}
	for _, s := range append(append(append([]*rtSend(nil), r.sends...), r.lateSends...), r.postClose...) {
		byID[s.ID] = s
	}
	// every transmission belongs to a Send; an application Send transmits exactly once
	for _, t := range txs {
		if byID[t.ID] == nil {
			e.Violate("C14", "unattributed-transmission", "routing indication id=%d on the wire that no Send call issued", t.ID)
		}
	}
	// C13 (a): pacing
	var okTx []rtTx
	for _, t := range txs {
		if !t.Failed {
			okTx = append(okTx, t)
		}
	}
	for i := 1; i < len(okTx); i++ {
		if d := okTx[i].At.T - okTx[i-1].At.T; d < c.P-eps {
			e.Violate("C13", "pause-violated", "routing indications id=%d and id=%d left the client %v apart; the post-send pause is %v", okTx[i-1].ID, okTx[i].ID, d, c.P)
			break
		}
	}
	// C13 (b): busy back-off. t_L = the receive loop asks for the send lock right after it read the indication.
	serveTask := -1
	for _, t := range e.S.Tasks() {
		if t.Lib && strings.Contains(t.SpawnSite, "router.go") && strings.HasSuffix(t.SpawnSite, ":go") {
			if serveTask < 0 || t.ID < serveTask {
				serveTask = t.ID // the receive loop is the first goroutine the router starts
			}
		}
	}
	// The receive loop asks for the send lock once per routing-busy and once per routing-lost
	// indication, in the order in which it read them.
	// (it is "in line" from the moment it joined the wait queue, or took the free lock)
	var serveReq []Stamp
	for j, ev := range r.locks {
		if ev.M != sendMu || ev.Task != serveTask {
			continue
		}
		if ev.Kind == "queued" {
			serveReq = append(serveReq, r.lockAt[j])
		} else if ev.Kind == "acquire" && !(j > 0 && r.locks[j-1].M == sendMu && r.locks[j-1].Task == serveTask && r.locks[j-1].Kind == "queued") {
			// acquired without waiting
			prevQueued := false
			for k := j - 1; k >= 0; k-- {
				if r.locks[k].M == sendMu && r.locks[k].Task == serveTask {
					prevQueued = r.locks[k].Kind == "queued"
					break
				}
			}
			if !prevQueued {
				serveReq = append(serveReq, r.lockAt[j])
			}
		}
	}
	type busyAt struct {
		b  wireEv
		tL *Stamp
	}
	var busyRx []busyAt
	nreq := 0
	for _, x := range rx {
		if !x.F.OK || (x.F.Svc != svcRoutingBusy && x.F.Svc != svcRoutingLost) {
			continue
		}
		var tL *Stamp
		if nreq < len(serveReq) {
			st := serveReq[nreq]
			tL = &st
			nreq++
		}
		if x.F.Svc == svcRoutingBusy {
			busyRx = append(busyRx, busyAt{x, tL})
		}
	}
	for _, ba := range busyRx {
		b, tL := ba.b, ba.tL
		if tL != nil && tL.Seq < b.At.Seq {
			// the receive loop asked for the send lock (which it does only to act on a busy or lost
			// indication) before the indication this request would belong to had been read: it
			// acted on one that never arrived (e.g. on the previous one a second time)
			e.Violate("C13", "flow-control-without-indication", "the receive loop took the send lock at %v as if a busy or lost indication had arrived; the next such indication was only read at %v", tL.T, b.At.T)
			e.Violate("C14", "flow-control-without-indication", "the receive loop took the send lock at %v as if a busy or lost indication had arrived; the next such indication was only read at %v", tL.T, b.At.T)
			break
		}
		if tL == nil {
			// (with an early Close the loop may have been waiting for the send lock behind a queue of
			// senders since an earlier indication, and then ended: nothing can be demanded)
			if !r.closed || r.closeInv.Seq > r.settled.Seq {
				if r.settled.T-b.At.T > 100*time.Millisecond {
					e.Violate("C13", "busy-ignored", "routing-busy indication read at %v was never taken in (the receive loop never asked for the send lock)", b.At.T)
				}
			}
			continue
		}
		W := time.Duration(b.F.Wait) * time.Millisecond
		if W > 50*time.Millisecond {
			W = 50 * time.Millisecond
		}
		// Every Send that starts after the indication was taken in transmits no earlier than
		// t_L + W; Sends that were already inside Send may still transmit (once each: a Send
		// transmits once). With hand-over in arrival order the receive loop's silent period
		// starts after the stragglers queued before it, so this is what the code can guarantee.
		base := tL.T
		for _, t := range okTx {
			if t.At.Seq > tL.Seq && (t.Req.Seq == 0 || t.Req.Seq > tL.Seq) {
				if t.At.T < base+W-eps {
					e.Violate("C13", "busy-not-honoured", "routing-busy{wait=%dms} was taken in at %v; id=%d, whose Send started afterwards (it asked for the send lock at %v), was transmitted at %v: earlier than the announced wait (capped at 50ms)", b.F.Wait, tL.T, t.ID, t.Req.T, t.At.T)
				}
				break
			}
		}
		e.Probe("busy-taken-in")
	}
	// C13 (c) / C14: every Send returns
	for _, s := range r.sends {
		if !s.Done {
			e.Violate("C13", "send-never-returned", "Send id=%d invoked at %v never returned (client deadlocked)", s.ID, s.Inv.T)
			e.Violate("C14", "send-never-returned", "Send id=%d invoked at %v never returned (client deadlocked)", s.ID, s.Inv.T)
			break
		}
	}
	for _, s := range r.postClose {
		if !s.Done {
			e.Violate("C13", "send-never-returned", "a Send invoked at %v, right after Close had returned, never returned (the send lock was left locked)", s.Inv.T)
			e.Violate("C14", "send-never-returned", "a Send invoked at %v, right after Close had returned, never returned (the send lock was left locked)", s.Inv.T)
		} else if s.OK {
			e.Probe("send-after-close-succeeded")
		}
	}
	for _, s := range r.lateSends {
		if !s.Done {
			e.Violate("C14", "send-never-returned", "after the whole history a further Send never returned (client deadlocked)")
			e.Violate("C13", "send-never-returned", "after the whole history a further Send never returned (client deadlocked)")
		} else if !s.OK {
			e.Violate("C14", "client-unable-to-send", "after the whole history a further Send failed: %s", s.Err)
		}
	}
	// liveness bound: once the busy indications have stopped, every Send still pending returns
	// within (number of pending Sends) pauses + 50 ms per outstanding busy indication
	if n := len(busyRx); n > 0 && !r.closed || n > 0 && r.closed && r.closeInv.Seq > r.settled.Seq {
		lastBusy := busyRx[n-1].b.At
		pending := 0
		for _, s := range r.sends {
			if s.Inv.Seq < lastBusy.Seq && (!s.Done || s.Ret.Seq > lastBusy.Seq) {
				pending++
			}
		}
		bound := time.Duration(pending+1)*(c.P+eps) + time.Duration(n)*(50*time.Millisecond+eps) + eps
		if c.SlowWrite > 0 {
			bound += time.Duration(pending+1) * c.SlowMax // each transmission may stall inside the write
		}
		// Retransmissions asked for by lost indications stand in the same queue for the lock (ahead of
		// the busy handler, if they were asked for first) and are paced like any other transmission.
		rt := int(c.Retain)
		if rt == 0 {
			rt = 32
		}
		for _, x := range rx {
			if x.F.OK && x.F.Svc == svcRoutingLost {
				k := int(x.F.Count)
				if k > rt {
					k = rt
				}
				bound += time.Duration(k) * (c.P + eps + c.SlowMax)
			}
		}
		for _, s := range r.sends {
			if s.Inv.Seq < lastBusy.Seq && s.Done && s.Ret.Seq > lastBusy.Seq && s.Ret.T-lastBusy.T > bound {
				e.Violate("C13", "resume-too-late", "Send id=%d, pending when the last routing-busy indication was read at %v, returned %v later; bound %v (%d pending Sends, pause %v, %d busy indications)", s.ID, lastBusy.T, s.Ret.T-lastBusy.T, bound, pending, c.P, n)
				break
			}
		}
	}

	checkC14(r, txs, rx, byID)
}

func checkC14(r *rtRun, txs []rtTx, rx []wireEv, byID map[int]*rtSend) {
	e, c := r.e, r.c
	retain := int(c.Retain)
	if retain == 0 {
		retain = 32
	}
	// lost indications read by the client
	var lostRx []wireEv
	for _, x := range rx {
		if x.F.OK && x.F.Svc == svcRoutingLost {
			lostRx = append(lostRx, x)
		}
	}
	var W []int // reference window: ids of the retained messages, oldest first
	push := func(id int) {
		W = append(W, id)
		if len(W) > retain {
			W = W[len(W)-retain:]
		}
	}
	ti := 0
	advanceTo := func(seq uint64) {
		for ti < len(txs) && txs[ti].At.Seq < seq {
			if txs[ti].Failed {
				ti++
				continue
			}
			if txs[ti].Repeat && !c.LostOverlap {
				e.Violate("C14", "unsolicited-resend", "routing indication id=%d was transmitted again at %v although no routing-lost indication asked for it", txs[ti].ID, txs[ti].At.T)
			}
			push(txs[ti].ID)
			ti++
		}
	}
	uncertain := false // an earlier resend was still running when a lost indication arrived: the statement's precondition is gone
	if c.LostOverlap {
		// the run lets lost indications arrive on top of each other on purpose (deadlock freedom,
		// pacing): what is resent when is outside the statement ("and no earlier resend is still
		// in progress")
		lostRx = nil
		uncertain = true
		e.Probe("lost-indications-overlap:resend-window-not-judged")
	}
	for li, L := range lostRx {
		if uncertain {
			e.Probe("lost-overlapping-resend-skipped")
			break
		}
		advanceTo(L.At.Seq)
		end := ^uint64(0)
		if li+1 < len(lostRx) {
			end = lostRx[li+1].At.Seq
		}
		// Close interrupted the resend: a prefix is all there can be. (The harness's own Close at
		// the end of the run comes after the settle point, by which every resend has finished.)
		cut := r.closed && r.closeInv.Seq < end && r.closeInv.Seq < r.settled.Seq
		if li+1 < len(lostRx) {
			cut = true // ... or the next lost indication arrived while it was still running
		}
		if r.closed && r.closeRet.Seq < end {
			end = r.closeRet.Seq
		}
		// transmissions up to the next lost indication
		var seg []rtTx
		for j := ti; j < len(txs) && txs[j].At.Seq < end; j++ {
			seg = append(seg, txs[j])
		}
		var resent []int
		firstRepeat := -1
		for j, t := range seg {
			if t.Repeat {
				if firstRepeat < 0 {
					firstRepeat = j
				}
				resent = append(resent, t.ID)
			}
		}
		k := int(L.F.Count)
		// candidates: the window after 0..firstRepeat application transmissions of this segment
		limit := firstRepeat
		if limit < 0 {
			limit = len(seg)
		}
		matched := -1
		var cand []int
		base := append([]int(nil), W...)
		var expect0 []int
		for j := 0; j <= limit; j++ {
			n := k
			if n > len(base) {
				n = len(base)
			}
			want := base[len(base)-n:]
			if j == 0 {
				expect0 = append([]int(nil), want...)
			}
			if equalInts(want, resent) || cut && len(resent) <= len(want) && equalInts(want[:len(resent)], resent) {
				if len(resent) < len(want) && li+1 < len(lostRx) && !(r.closed && r.closeInv.Seq < end) {
					uncertain = true
				}
				matched = j
				cand = append([]int(nil), base[:len(base)-n]...)
				break
			}
			if j < limit {
				if !seg[j].Failed {
					base = append(base, seg[j].ID)
					if len(base) > retain {
						base = base[len(base)-retain:]
					}
				}
			}
		}
		closedSoon := r.closed && r.closeInv.Seq < end && r.closeInv.Seq < r.settled.Seq && len(resent) == 0
		if matched < 0 {
			if !closedSoon {
				e.Violate("C14", "wrong-resend", "routing-lost{count=%d} read at %v with %d messages retained (limit %d): expected the resend %s (or the same suffix of the window after up to %d further transmissions), the client resent %s", k, L.At.T, len(W), retain, brief(expect0), limit, brief(resent))
			}
			// resynchronise: rebuild the window from what was transmitted
			for _, t := range seg {
				if !t.Failed {
					push(t.ID)
				}
			}
			ti += len(seg)
			continue
		}
		e.Probe("lost-resend-checked")
		if len(resent) > 0 {
			e.Probe("lost-resent>0")
		}
		if k > len(W) {
			e.Probe("lost-k>retained")
		}
		// continue the reference window: the matched prefix of the segment was pushed before the pop
		W = cand
		for j := matched; j < len(seg); j++ {
			if !seg[j].Failed {
				push(seg[j].ID)
			}
		}
		ti += len(seg)
	}
	if !uncertain {
		advanceTo(^uint64(0))
	}
	// failed Sends are never transmitted (hence never retained); successful ones are transmitted once by the application
	cnt := map[int]int{}
	for _, t := range txs {
		if !t.Repeat && !t.Failed {
			cnt[t.ID]++
		}
	}
	for _, s := range r.sends {
		if s.Done && s.OK && cnt[s.ID] != 1 {
			e.Violate("C14", "send-ok-not-transmitted", "Send id=%d reported success but %d first transmissions are on the wire", s.ID, cnt[s.ID])
		}
	}
	// inbound: every routing indication the socket read is handed to Inbound exactly once (C14), in order (C17)
	var inOrder []int
	for _, x := range rx {
		if x.F.OK && x.F.Svc == svcRoutingInd {
			if r.closed && x.At.Seq > r.closeInv.Seq {
				continue
			}
			inOrder = append(inOrder, cemiID(x.F.CEMI))
		}
	}
	seen := map[int]int{}
	var got []int
	for _, d := range r.deliv {
		seen[d.ID]++
		if seen[d.ID] > 1 {
			e.Violate("C14", "inbound-duplicate", "routing indication id=%d was handed to Inbound %d times", d.ID, seen[d.ID])
		}
		got = append(got, d.ID)
	}
	open := !r.closed || r.closeInv.Seq > r.settled.Seq
	if c.Reader != "absent" && open {
		for _, id := range inOrder {
			if seen[id] == 0 {
				e.Violate("C14", "inbound-lost", "routing indication id=%d was read by the socket but never handed to Inbound", id)
				break
			}
		}
		if len(got) == len(inOrder) {
			for i := range got {
				if got[i] != inOrder[i] {
					e.Violate("C17", "router-inbound-reordered", "Inbound yielded id=%d at position %d where id=%d was received at that position (received %v, delivered %v)", got[i], i, inOrder[i], clip(inOrder, i), clip(got, i))
					break
				}
			}
		}
	}
	for _, d := range r.deliv {
		ok := false
		for _, id := range r.inIDs {
			if id == d.ID {
				ok = true
			}
		}
		if !ok {
			e.Violate("C14", "inbound-unknown", "Inbound yielded a message no peer sent: id=%d %s", d.ID, d.Msg)
		}
	}
	// after Close: Inbound closed, receive task gone
	if r.closed {
		if c.Reader != "absent" && r.inboundEnd == nil {
			e.Violate("C14", "inbound-open-after-close", "Close returned at %v but Inbound was never closed", r.closeRet.T)
		}
		for _, t := range e.S.LiveLibTasks() {
			e.Violate("C14", "goroutine-leak:"+siteKey(t.SpawnSite), "library goroutine spawned at %s is still alive (at %s) after Close", t.SpawnSite, t.Site)
		}
	}
}

func equalInts(a, b []int) bool {
	if len(a) != len(b) {
		return false
	}
	for i := range a {
		if a[i] != b[i] {
			return false
		}
	}
	return true
}

// brief renders a list of ids compactly.
func brief(a []int) string {
	if len(a) <= 12 {
		return fmt.Sprint(a)
	}
	return fmt.Sprintf("[%d %d %d %d ... %d %d %d] (%d ids)", a[0], a[1], a[2], a[3], a[len(a)-3], a[len(a)-2], a[len(a)-1], len(a))
}

// devState is the device-state octet of a routing indication: a bit set (KNX fault, IP fault, reserved
// bits) that says something about the sender and nothing about what the receiver has to do.
func devState(e *Env) uint8 {
	return []uint8{0, 0, 0, 1, 2, 3, 0x80, 0xff}[e.Choose("wl.devstate", 8)]
}
