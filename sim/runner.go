package sim

import (
	"bufio"
	"encoding/json"
	"flag"
	"fmt"
	"os"
	"os/exec"
	"path/filepath"
	"runtime"
	"sort"
	"strconv"
	"strings"
	"sync"
	"sync/atomic"
	"syscall"
	"testing"
	"time"
)

// The test binary is the whole engine: `sim.test -test.run '^TestMain$' …` is never used;
// instead the modes below are selected with -verif.mode.
//
//	check    orchestrate a check of one property: spawn workers, aggregate, minimise, confirm
//	         violations in a fresh process, write evidence, print VIOLATION / KNOWN-FINDING lines
//	worker   run a range of run indices and stream one JSON line per run to stdout
//	replay   re-execute a replay file and report whether the violation reproduces
//	one      run one seed with a full trace (debugging)
var (
	fMode     = flag.String("verif.mode", "", "check | worker | replay | one | determinism")
	fProp     = flag.String("verif.prop", "", "property id")
	fTier     = flag.String("verif.tier", "quick", "quick | thorough")
	fSeed     = flag.Uint64("verif.seed", 1, "base seed (VERIF_SEED)")
	fFrom     = flag.Int("verif.from", 0, "first run index (worker)")
	fStride   = flag.Int("verif.stride", 1, "stride between run indices (worker)")
	fCount    = flag.Int("verif.count", 0, "number of runs (worker)")
	fBudget   = flag.Duration("verif.budget", 0, "wall-clock budget (worker/check)")
	fWorkers  = flag.Int("verif.workers", 0, "worker processes (default: number of CPUs)")
	fReplay   = flag.String("verif.replay", "", "replay file")
	fRehash   = flag.Bool("verif.rehash", false, "replay: if the violation recurs with another event log, record this process's log hash in the file")
	fScenario = flag.String("verif.scenario", "", "scenario (one)")
	fOut      = flag.String("verif.out", "", "output directory (evidence, replays)")
	fKnown    = flag.String("verif.known", "", "known-findings file")
	fRuns     = flag.Int("verif.runs", 0, "override the number of runs")
	fStates   = flag.String("verif.states", "", "file to write the set of abstract states to (worker)")
	fVerbose  = flag.Bool("verif.v", false, "verbose")
	fClass    = flag.String("verif.class", "", "violation class (minimise)")
	fBaseSeed = flag.Uint64("verif.baseseed", 0, "base seed recorded in the replay file (minimise)")
)

// plan: which scenarios a property's check runs and how many runs per tier.
type propPlan struct {
	Scenarios   []string
	QuickRuns   int
	ThoroughDur time.Duration
	Level       string
}

var plans = map[string]propPlan{}

// runSeed derives the decision seed of run idx of a check from the base seed.
func runSeed(base uint64, prop, scenario string, idx int) uint64 {
	h := uint64(14695981039346656037)
	mix := func(s string) {
		for i := 0; i < len(s); i++ {
			h ^= uint64(s[i])
			h *= 1099511628211
		}
	}
	mix(prop)
	mix("/")
	mix(scenario)
	mix("/")
	mix(strconv.FormatUint(base, 10))
	mix("/")
	mix(strconv.Itoa(idx))
	h ^= h >> 29
	h *= 0xbf58476d1ce4e5b9
	h ^= h >> 32
	return h
}

func specFor(base uint64, prop string, idx int) RunSpec {
	pl := plans[prop]
	sc := pl.Scenarios[idx%len(pl.Scenarios)]
	return RunSpec{Scenario: sc, Prop: prop, Seed: runSeed(base, prop, sc, idx)}
}

// ownViolations filters the violations that belong to the property under check.
func ownViolations(prop string, res *RunResult) []Violation {
	var out []Violation
	for _, v := range res.Violations {
		p := v.Prop
		if p == "PANIC" {
			// a panic, deadlock or livelock inside the library: the process would not have got any
			// further, so whatever property this run was checking did not hold in it
			p = prop
		}
		if p == prop {
			v.Prop = prop
			out = append(out, v)
		}
	}
	return out
}

var panicOwner = map[string]string{"tunnel": "C10", "router": "C14", "socket": "C16", "decoder": "C01", "describe": "C20", "dpt": "C19", "groups": "C12"}

// ---------------------------------------------------------------------------------------
// worker

type workerLine struct {
	Idx        int            `json:"idx"`
	Seed       uint64         `json:"seed"`
	Scenario   string         `json:"scenario"`
	Hash       string         `json:"hash"`
	Sched      string         `json:"sched"`
	Steps      int            `json:"steps"`
	SimNs      int64          `json:"sim_ns"`
	Nontrivial bool           `json:"nt"`
	Faults     map[string]int `json:"faults,omitempty"`
	Probes     map[string]int `json:"probes,omitempty"`
	Viol       []Violation    `json:"viol,omitempty"`
	OtherViol  int            `json:"other_viol,omitempty"`
	OtherCls   map[string]int `json:"other_cls,omitempty"` // "<property>:<class>" of violations that belong to other properties' checks
	Herr       string         `json:"herr,omitempty"`
	Outcome    string         `json:"outcome"`
	Config     string         `json:"config,omitempty"`
	Multi      int            `json:"multi"`
	Ties       int            `json:"ties"`
	NDec       int            `json:"ndec"`
	Recheck    string         `json:"recheck,omitempty"` // hash of an in-process re-execution (determinism sample)
	Final      bool           `json:"final,omitempty"`
	States     int            `json:"states,omitempty"`
}

func workerMain(t *testing.T) {
	out := bufio.NewWriterSize(os.Stdout, 1<<16)
	defer out.Flush()
	enc := json.NewEncoder(out)
	start := time.Now()
	states := map[uint64]struct{}{}
	n := 0
	for i := 0; *fCount == 0 || i < *fCount; i++ {
		if *fBudget > 0 && time.Since(start) > *fBudget {
			break
		}
		idx := *fFrom + i**fStride
		spec := specFor(*fSeed, *fProp, idx)
		res := Execute(t, spec)
		n++
		wl := workerLine{Idx: idx, Seed: spec.Seed, Scenario: spec.Scenario, Hash: res.Hash, Sched: res.SchedHash, Steps: res.Steps, SimNs: res.SimTimeNs,
			Nontrivial: res.Nontrivial, Faults: res.Faults, Probes: res.Probes, Herr: res.HarnessErr, Outcome: res.Outcome, Multi: res.Multi, Ties: res.TimerTies, NDec: res.NDecisions}
		wl.Viol = ownViolations(*fProp, res)
		wl.OtherViol = len(res.Violations) - len(wl.Viol)
		if wl.OtherViol > 0 {
			wl.OtherCls = map[string]int{}
			for _, v := range res.Violations {
				vp := v.Prop
				if vp == "PANIC" {
					vp = *fProp
				}
				if vp != *fProp {
					wl.OtherCls[vp+":"+v.Class]++
				}
			}
		}
		if idx%50 == 0 || len(wl.Viol) > 0 {
			wl.Config = res.Config
		}
		for _, h := range lastStates {
			states[h] = struct{}{}
		}
		// determinism sample: every 50th run is executed again and must give the same log
		if idx%50 == 7 {
			res2 := Execute(t, spec)
			wl.Recheck = res2.Hash
		}
		enc.Encode(&wl)
		out.Flush()
	}
	enc.Encode(&workerLine{Final: true, States: len(states), Idx: n})
	if *fStates != "" {
		f, err := os.Create(*fStates)
		if err == nil {
			w := bufio.NewWriter(f)
			for h := range states {
				fmt.Fprintf(w, "%x\n", h)
			}
			w.Flush()
			f.Close()
		}
	}
}

// ---------------------------------------------------------------------------------------
// one

func oneMain(t *testing.T) {
	spec := RunSpec{Scenario: *fScenario, Prop: *fProp, Seed: *fSeed, Trace: true}
	if *fScenario == "" {
		spec = specFor(*fSeed, *fProp, *fFrom)
		spec.Trace = true
	}
	res := Execute(t, spec)
	for _, l := range res.Trace {
		fmt.Println(l)
	}
	fmt.Printf("config: %s\noutcome=%s steps=%d sim=%v hash=%s faults=%v probes=%v herr=%q\n", res.Config, res.Outcome, res.Steps, time.Duration(res.SimTimeNs), res.Hash, res.Faults, res.Probes, res.HarnessErr)
	for _, v := range res.Violations {
		fmt.Printf("VIOL %s %s: %s\n", v.Prop, v.Class, v.Detail)
	}
}

// ---------------------------------------------------------------------------------------
// replay files

type replayFile struct {
	Property   string           `json:"property"`
	Class      string           `json:"class"`
	Detail     string           `json:"detail"`
	Scenario   string           `json:"scenario"`
	Seed       uint64           `json:"seed"`
	BaseSeed   uint64           `json:"base_seed"`
	RunIndex   int              `json:"run_index"`
	Decisions  map[string][]int `json:"decisions"`
	StepFactor int              `json:"step_factor,omitempty"`
	NDec       int              `json:"n_decisions"`
	OrigNDec   int              `json:"n_decisions_before_minimisation"`
	Hash       string           `json:"event_log_hash"`
	Config     string           `json:"config"`
	Trace      []string         `json:"trace_tail,omitempty"`
}

func countDec(d map[string][]int) int {
	n := 0
	for _, v := range d {
		n += len(v)
	}
	return n
}

func replayMain(t *testing.T) {
	b, err := os.ReadFile(*fReplay)
	if err != nil {
		fmt.Println("REPLAY-ERROR", err)
		os.Exit(5)
	}
	var rf replayFile
	if err := json.Unmarshal(b, &rf); err != nil {
		fmt.Println("REPLAY-ERROR", err)
		os.Exit(5)
	}
	if (strings.HasPrefix(rf.Class, "crash:") || rf.Class == "hang") && os.Getenv("VERIF_REPLAY_CHILD") == "" {
		// the run kills its process: execute it in a child and compare the way it dies
		cmd := exec.Command(selfExe(), "-test.run", "^TestVerif$", "-test.timeout", "10m", "-verif.mode", "replay", "-verif.replay", *fReplay)
		cmd.Env = append(os.Environ(), "VERIF_REPLAY_CHILD=1", "GOTRACEBACK=crash")
		var buf strings.Builder
		cmd.Stdout, cmd.Stderr = &buf, &buf
		cmd.Start()
		done := make(chan error, 1)
		go func() { done <- cmd.Wait() }()
		hung := false
		select {
		case <-done:
		case <-hangSignal(cmd.Process.Pid, nil, done2(done)):
			hung = true
			cmd.Process.Signal(syscall.SIGQUIT)
			select {
			case <-done:
			case <-time.After(5 * time.Second):
				cmd.Process.Kill()
				<-done
			}
		}
		class, _ := classifyCrash(crashInfo{Spec: RunSpec{Scenario: rf.Scenario, Prop: rf.Property}, Hung: hung, Stderr: buf.String()})
		if class == rf.Class {
			fmt.Printf("REPRODUCED property=%s class=%s (the run kills its process again)\n%s\n", rf.Property, class, tailStr(firstFatal(buf.String()), 800))
			os.Exit(1)
		}
		fmt.Printf("NOT-REPRODUCED property=%s class=%s got=%q\n%s\n", rf.Property, rf.Class, class, tailStr(buf.String(), 800))
		os.Exit(3)
	}
	spec := RunSpec{Scenario: rf.Scenario, Prop: rf.Property, Seed: rf.Seed, Decisions: rf.Decisions, Trace: *fVerbose, StepFactor: rf.StepFactor}
	res := Execute(t, spec)
	if *fVerbose {
		for _, l := range res.Trace {
			fmt.Println(l)
		}
	}
	if res.HarnessErr != "" {
		fmt.Println("REPLAY-ERROR harness:", res.HarnessErr)
		os.Exit(5)
	}
	same := false
	for _, v := range ownViolations(rf.Property, res) {
		if v.Class == rf.Class {
			same = true
			fmt.Printf("REPRODUCED property=%s class=%s hash=%s detail=%s\n", v.Prop, v.Class, res.Hash, v.Detail)
			break
		}
	}
	if !same {
		fmt.Printf("NOT-REPRODUCED property=%s class=%s hash=%s\n", rf.Property, rf.Class, res.Hash)
		os.Exit(3)
	}
	if res.Hash != rf.Hash {
		fmt.Printf("HASH-MISMATCH recorded=%s now=%s\n", rf.Hash, res.Hash)
		if *fRehash {
			rf.Hash = res.Hash
			if js, err := json.MarshalIndent(&rf, "", " "); err == nil {
				writeFileAtomic(*fReplay, js)
			}
		}
		os.Exit(4)
	}
	// exit status 1: the violation reproduced exactly
	os.Exit(1)
}

// ---------------------------------------------------------------------------------------
// minimisation (delta debugging over the decision sub-streams)

func hasClass(prop, class string, res *RunResult) bool {
	for _, v := range ownViolations(prop, res) {
		if v.Class == class {
			return true
		}
	}
	return false
}

func cloneDec(d map[string][]int) map[string][]int {
	out := make(map[string][]int, len(d))
	for k, v := range d {
		out[k] = append([]int(nil), v...)
	}
	return out
}

// minimise shrinks the decision streams of a failing run while the same violation class of the
// same property recurs. Budgeted by wall-clock time.
func minimise(t *testing.T, spec RunSpec, prop, class string, budget time.Duration) (RunSpec, *RunResult, int) {
	deadline := time.Now().Add(budget)
	tries := 0
	best := spec
	bestRes := Execute(t, best)
	if !hasClass(prop, class, bestRes) {
		return spec, nil, tries
	}
	// canonical form: what was actually drawn in the replayed run
	best.Decisions = cloneDec(bestRes.Decisions)
	try := func(cand map[string][]int) bool {
		if time.Now().After(deadline) {
			return false
		}
		tries++
		s := best
		s.Decisions = cand
		r := Execute(t, s)
		if r.HarnessErr == "" && hasClass(prop, class, r) {
			best = s
			best.Decisions = cloneDec(r.Decisions)
			bestRes = r
			return true
		}
		return false
	}
	// kinds ordered: schedule-like streams first (they are the longest)
	for pass := 0; pass < 3 && time.Now().Before(deadline); pass++ {
		progress := false
		kinds := sortedKeys(best.Decisions)
		sort.SliceStable(kinds, func(i, j int) bool { return len(best.Decisions[kinds[i]]) > len(best.Decisions[kinds[j]]) })
		for _, k := range kinds {
			if strings.HasPrefix(k, "cfg.") && pass == 0 {
				continue
			}
			// 1. zero everything
			if vs := best.Decisions[k]; len(vs) > 0 {
				allz := true
				for _, x := range vs {
					if x != 0 {
						allz = false
					}
				}
				if !allz {
					cand := cloneDec(best.Decisions)
					cand[k] = make([]int, len(vs))
					if try(cand) {
						progress = true
						continue
					}
				}
			}
			// 2. zero chunks, halving
			for chunk := len(best.Decisions[k]); chunk >= 1; chunk /= 2 {
				for off := 0; off < len(best.Decisions[k]); off += chunk {
					if time.Now().After(deadline) {
						break
					}
					vs := best.Decisions[k]
					end := off + chunk
					if end > len(vs) {
						end = len(vs)
					}
					nz := false
					for _, x := range vs[off:end] {
						if x != 0 {
							nz = true
						}
					}
					if !nz {
						continue
					}
					cand := cloneDec(best.Decisions)
					for i := off; i < end; i++ {
						cand[k][i] = 0
					}
					if try(cand) {
						progress = true
					}
				}
				if chunk == 1 {
					break
				}
			}
			// 3. truncate the tail (past the end replays as 0)
			for len(best.Decisions[k]) > 0 {
				vs := best.Decisions[k]
				n := len(vs)
				for n > 0 && vs[n-1] == 0 {
					n--
				}
				if n == len(vs) {
					break
				}
				cand := cloneDec(best.Decisions)
				cand[k] = cand[k][:n]
				if !try(cand) {
					break
				}
			}
		}
		if !progress {
			break
		}
	}
	// drop trailing zeros everywhere (semantically identical: past-the-end = 0)
	final := cloneDec(best.Decisions)
	for k, vs := range final {
		n := len(vs)
		for n > 0 && vs[n-1] == 0 {
			n--
		}
		final[k] = vs[:n]
		if n == 0 {
			delete(final, k)
		}
	}
	s := best
	s.Decisions = final
	r := Execute(t, s)
	if r.HarnessErr == "" && hasClass(prop, class, r) {
		best, bestRes = s, r
	}
	return best, bestRes, tries
}

// ---------------------------------------------------------------------------------------
// known findings

type knownFinding struct {
	Property string `json:"property"`
	Class    string `json:"class"`
	What     string `json:"what"`
	Status   string `json:"status"` // "known" or "fixed"
	Commit   string `json:"commit,omitempty"`
}

type knownFile struct {
	Findings []knownFinding `json:"findings"`
}

func loadKnown(path string) []knownFinding {
	if path == "" {
		return nil
	}
	b, err := os.ReadFile(path)
	if err != nil {
		return nil
	}
	var kf knownFile
	if err := json.Unmarshal(b, &kf); err != nil {
		fmt.Fprintf(os.Stderr, "known findings file unreadable: %v\n", err)
		os.Exit(2)
	}
	return kf.Findings
}

// ---------------------------------------------------------------------------------------
// check

type aggregate struct {
	mu         sync.Mutex
	runs       int
	steps      int64
	simNs      int64
	hashes     map[string]struct{}
	scheds     map[string]struct{}
	faults     map[string]int
	probes     map[string]int
	scen       map[string]int
	outcomes   map[string]int
	viol       map[string][]workerLine // class -> runs
	herr       []string
	rechecks   int
	recheckBad []string
	recheckIdx []int
	samples    []map[string]interface{}
	otherViol  int
	otherCls   map[string]int
	multi      int64
	ties       int64
	states     int
}

func (a *aggregate) add(wl workerLine) {
	a.mu.Lock()
	defer a.mu.Unlock()
	if wl.Final {
		a.states += wl.States
		return
	}
	a.runs++
	a.steps += int64(wl.Steps)
	a.simNs += wl.SimNs
	a.multi += int64(wl.Multi)
	a.ties += int64(wl.Ties)
	if wl.Nontrivial {
		a.hashes[wl.Hash] = struct{}{}
	}
	a.scheds[wl.Sched] = struct{}{}
	for k, v := range wl.Faults {
		a.faults[k] += v
	}
	for k, v := range wl.Probes {
		a.probes[k] += v
	}
	a.scen[wl.Scenario]++
	a.outcomes[wl.Outcome]++
	a.otherViol += wl.OtherViol
	for k, n := range wl.OtherCls {
		if a.otherCls == nil {
			a.otherCls = map[string]int{}
		}
		a.otherCls[k] += n
	}
	if wl.Herr != "" {
		a.herr = append(a.herr, fmt.Sprintf("run %d seed %d: %s", wl.Idx, wl.Seed, wl.Herr))
	}
	if wl.Recheck != "" {
		a.rechecks++
		if wl.Recheck != wl.Hash {
			a.recheckBad = append(a.recheckBad, fmt.Sprintf("run %d seed %d: %s vs %s", wl.Idx, wl.Seed, wl.Hash, wl.Recheck))
			a.recheckIdx = append(a.recheckIdx, wl.Idx)
		}
	}
	seen := map[string]bool{}
	for _, v := range wl.Viol {
		if !seen[v.Class] {
			seen[v.Class] = true
			if len(a.viol[v.Class]) < 8 {
				a.viol[v.Class] = append(a.viol[v.Class], wl)
			}
		}
	}
	if wl.Config != "" && len(a.samples) < 6 && wl.Nontrivial {
		a.samples = append(a.samples, map[string]interface{}{"run_index": wl.Idx, "seed": wl.Seed, "scenario": wl.Scenario, "config": wl.Config,
			"steps": wl.Steps, "sim_time_s": float64(wl.SimNs) / 1e9, "faults_fired": wl.Faults, "decisions_drawn": wl.NDec, "event_log_hash": wl.Hash, "outcome": wl.Outcome})
	}
}

func selfExe() string {
	exe, err := os.Executable()
	if err != nil {
		return os.Args[0]
	}
	return exe
}

func checkMain(t *testing.T) {
	prop := *fProp
	pl, ok := plans[prop]
	if !ok {
		fmt.Printf("no check for property %s\n", prop)
		os.Exit(2)
	}
	start := time.Now()
	workers := *fWorkers
	if workers <= 0 {
		workers = runtime.NumCPU()
	}
	outDir := *fOut
	if outDir == "" {
		outDir = "."
	}
	os.MkdirAll(filepath.Join(outDir, "evidence"), 0o755)
	os.MkdirAll(filepath.Join(outDir, "replays"), 0o755)
	known := loadKnown(*fKnown)

	runs := pl.QuickRuns
	var budget time.Duration
	if *fTier == "thorough" {
		runs = 0
		budget = pl.ThoroughDur
	}
	if *fRuns > 0 {
		runs = *fRuns
		budget = 0
	}
	if *fBudget > 0 {
		budget = *fBudget
		if *fRuns == 0 {
			runs = 0
		}
	}
	agg := &aggregate{hashes: map[string]struct{}{}, scheds: map[string]struct{}{}, faults: map[string]int{}, probes: map[string]int{}, scen: map[string]int{},
		outcomes: map[string]int{}, viol: map[string][]workerLine{}}
	var wg sync.WaitGroup
	workerFailed := make([]string, 0)
	var wfMu sync.Mutex
	var crashes []crashInfo
	deadline := time.Time{}
	if budget > 0 {
		deadline = start.Add(budget)
	}
	for w := 0; w < workers; w++ {
		cnt := 0
		if runs > 0 {
			cnt = runs / workers
			if w < runs%workers {
				cnt++
			}
			if cnt == 0 {
				continue
			}
		}
		wg.Add(1)
		go func(w, cnt int) {
			defer wg.Done()
			from := w
			restarts := 0
			for {
				left := time.Duration(0)
				if !deadline.IsZero() {
					left = time.Until(deadline)
					if left <= 0 {
						return
					}
				}
				args := []string{"-test.run", "^TestVerif$", "-test.timeout", "12h", "-verif.mode", "worker", "-verif.prop", prop, "-verif.seed", strconv.FormatUint(*fSeed, 10),
					"-verif.from", strconv.Itoa(from), "-verif.stride", strconv.Itoa(workers), "-verif.count", strconv.Itoa(cnt), "-verif.budget", left.String()}
				cmd := exec.Command(selfExe(), args...)
				cmd.Env = append(os.Environ(), "GOMAXPROCS=2", "GOTRACEBACK=crash")
				stdout, _ := cmd.StdoutPipe()
				var stderr strings.Builder
				cmd.Stderr = &stderr
				if err := cmd.Start(); err != nil {
					wfMu.Lock()
					workerFailed = append(workerFailed, fmt.Sprintf("worker %d: cannot start: %v", w, err))
					wfMu.Unlock()
					return
				}
				var lastLine atomic.Int64
				lastLine.Store(time.Now().UnixNano())
				doneCh := make(chan struct{})
				hung := false
				go func() { // watchdog: a run that makes no progress for a long time is a hang
					select {
					case <-doneCh:
					case <-hangSignal(cmd.Process.Pid, &lastLine, doneCh):
						hung = true
						cmd.Process.Signal(syscall.SIGQUIT)
						time.Sleep(3 * time.Second)
						cmd.Process.Kill()
					}
				}()
				sc := bufio.NewScanner(stdout)
				sc.Buffer(make([]byte, 1<<20), 1<<26)
				sawFinal := false
				done := 0
				lastIdx := from - workers
				for sc.Scan() {
					line := sc.Bytes()
					if len(line) == 0 || line[0] != '{' {
						continue
					}
					var wl workerLine
					if err := json.Unmarshal(line, &wl); err != nil {
						continue
					}
					lastLine.Store(time.Now().UnixNano())
					if wl.Final {
						sawFinal = true
					} else {
						done++
						lastIdx = wl.Idx
					}
					agg.add(wl)
				}
				err := cmd.Wait()
				close(doneCh)
				if err == nil && sawFinal {
					return
				}
				// the worker died inside run lastIdx+stride
				crashed := lastIdx + workers
				tail := stderr.String()
				ci := crashInfo{Idx: crashed, Spec: specFor(*fSeed, prop, crashed), Hung: hung, Stderr: tail}
				wfMu.Lock()
				crashes = append(crashes, ci)
				wfMu.Unlock()
				restarts++
				wfMu.Lock()
				total := len(crashes)
				wfMu.Unlock()
				if total >= 4 {
					return // enough evidence: do not spend the budget on dying again and again
				}
				if restarts > 5 {
					wfMu.Lock()
					workerFailed = append(workerFailed, fmt.Sprintf("worker %d: died more than 5 times, last: %v", w, err))
					wfMu.Unlock()
					return
				}
				from = crashed + workers
				if cnt > 0 {
					cnt -= done + 1
					if cnt <= 0 {
						return
					}
				}
			}
		}(w, cnt)
	}
	wg.Wait()
	searchWall := time.Since(start)

	exit := 0
	historyDependent := 0
	if len(workerFailed) > 0 {
		for _, m := range workerFailed {
			fmt.Println("WORKER-FAILURE", m)
		}
		exit = 2
	}
	if len(agg.herr) > 0 {
		for i, m := range agg.herr {
			if i < 5 {
				fmt.Println("HARNESS-ERROR", m)
			}
		}
		exit = 2
	}
	if len(agg.recheckBad) > 0 {
		// The in-process re-execution of a sampled run gave a different log. Either the simulator is
		// not deterministic (fatal for everything it reports) or the code under test keeps state
		// across runs in package-level variables (a lazily built table, a cache), which makes the
		// second execution in one process legitimately different. Two fresh processes decide.
		for k, m := range agg.recheckBad {
			if k >= 3 {
				break
			}
			h1, h2 := freshHash(prop, agg.recheckIdx[k]), freshHash(prop, agg.recheckIdx[k])
			if h1 != "" && h1 == h2 {
				fmt.Printf("note: run %d gives another log when executed a second time in the same process but the same log (%s) in fresh processes: the library keeps state across runs (%s)\n", agg.recheckIdx[k], h1, m)
				historyDependent++
				continue
			}
			fmt.Println("NONDETERMINISM", m, "fresh processes:", h1, h2)
			exit = 2
		}
	}

	// Process crashes and hangs inside a run (fatal runtime errors cannot be recovered in-process).
	for _, ci := range crashes {
		class, owner := classifyCrash(ci)
		if class == "" {
			fmt.Printf("WORKER-FAILURE run %d (seed %d) killed its worker without a library frame on the stack:\n%s\n", ci.Idx, ci.Spec.Seed, tailStr(ci.Stderr, 2000))
			exit = 2
			continue
		}
		_ = owner // (a process that dies inside the library fails whatever property the run was checking)
		if _, dup := agg.viol[class]; dup {
			continue
		}
		agg.viol[class] = []workerLine{{Idx: ci.Idx, Seed: ci.Spec.Seed, Scenario: ci.Spec.Scenario, Viol: []Violation{{Prop: prop, Class: class, Detail: crashDetail(ci)}}}}
	}

	// Violations: per class, minimise one representative, write the replay file, confirm in a fresh process.
	type reported struct {
		Class, Detail, Replay string
		Known                 bool
		Runs                  int
	}
	var reports []reported
	knownHit := map[string]int{}
	classes := sortedKeys(agg.viol)
	for _, class := range classes {
		lines := agg.viol[class]
		// the representative: a run that was the first of its worker process if there is one (what it
		// shows cannot depend on anything the library remembered from earlier runs), else the shortest
		sort.SliceStable(lines, func(i, j int) bool {
			fi, fj := lines[i].Idx < workers, lines[j].Idx < workers
			if fi != fj {
				return fi
			}
			return lines[i].NDec < lines[j].NDec
		})
		wl := lines[0]
		isKnown := false
		for _, k := range known {
			if k.Property == prop && k.Class == class && k.Status == "known" {
				isKnown = true
				knownHit[class] += len(lines)
				fmt.Printf("KNOWN-FINDING: property=%s class=%s %s\n", prop, class, k.What)
			}
		}
		if isKnown {
			continue
		}
		spec := RunSpec{Scenario: wl.Scenario, Prop: prop, Seed: wl.Seed}
		if strings.HasPrefix(class, "crash:") || class == "hang" {
			// cannot be re-executed in this process: the replay file is the seed; confirmation
			// happens in a child process
			rf := replayFile{Property: prop, Class: class, Detail: wl.Viol[0].Detail, Scenario: spec.Scenario, Seed: spec.Seed, BaseSeed: *fSeed, RunIndex: wl.Idx}
			name := fmt.Sprintf("%s-%s-%d-%d.json", prop, sanitize(class), *fSeed, wl.Idx)
			path := filepath.Join(outDir, "replays", name)
			js, _ := json.MarshalIndent(&rf, "", " ")
			writeFileAtomic(path, js)
			cmd := exec.Command(selfExe(), "-test.run", "^TestVerif$", "-verif.mode", "replay", "-verif.replay", path)
			outb, err := cmd.CombinedOutput()
			if ee, ok := err.(*exec.ExitError); !ok || ee.ExitCode() != 1 {
				fmt.Printf("NONDETERMINISM: crash of run %d did not reproduce in a fresh process: %s\n", wl.Idx, tailStr(string(outb), 600))
				exit = 2
				continue
			}
			fmt.Printf("VIOLATION property=%s replay=%s\n  class=%s\n  %s\n", prop, path, class, wl.Viol[0].Detail)
			reports = append(reports, reported{Class: class, Detail: wl.Viol[0].Detail, Replay: path, Runs: 1})
			if exit == 0 {
				exit = 1
			}
			continue
		}
		// Re-execution and minimisation run in a child process under a watchdog: a run that
		// spins inside the library must not take the orchestrator down with it.
		name := fmt.Sprintf("%s-%s-%d-%d.json", prop, sanitize(class), *fSeed, wl.Idx)
		path := filepath.Join(outDir, "replays", name)
		mcmd := exec.Command(selfExe(), "-test.run", "^TestVerif$", "-test.timeout", "1h", "-verif.mode", "minimise", "-verif.prop", prop, "-verif.class", class,
			"-verif.scenario", wl.Scenario, "-verif.seed", strconv.FormatUint(wl.Seed, 10), "-verif.baseseed", strconv.FormatUint(*fSeed, 10), "-verif.from", strconv.Itoa(wl.Idx), "-verif.replay", path)
		mcmd.Env = append(os.Environ(), "GOTRACEBACK=crash")
		var mbuf strings.Builder
		mcmd.Stdout, mcmd.Stderr = &mbuf, &mbuf
		mcmd.Start()
		mdone := make(chan error, 1)
		go func() { mdone <- mcmd.Wait() }()
		var merr error
		mhung := false
		select {
		case merr = <-mdone:
		case <-time.After(minimiseBudget + 60*time.Second):
			mhung = true
			mcmd.Process.Signal(syscall.SIGQUIT)
			select {
			case <-mdone:
			case <-time.After(5 * time.Second):
				mcmd.Process.Kill()
				<-mdone
			}
		}
		var mr minimiseResult
		for _, l := range strings.Split(mbuf.String(), "\n") {
			if strings.HasPrefix(l, "MINIMISED ") {
				json.Unmarshal([]byte(strings.TrimPrefix(l, "MINIMISED ")), &mr)
			}
		}
		if (mhung || merr != nil) && mr.Err == "" {
			// a shrunken candidate killed or wedged the child: fall back to the unminimised run
			// (the seed alone replays it exactly)
			det := ""
			for _, v := range wl.Viol {
				if v.Class == class {
					det = v.Detail
				}
			}
			frf := replayFile{Property: prop, Class: class, Detail: det, Scenario: wl.Scenario, Seed: wl.Seed, BaseSeed: *fSeed, RunIndex: wl.Idx, Hash: wl.Hash, Config: wl.Config, NDec: wl.NDec, OrigNDec: wl.NDec}
			js, _ := json.MarshalIndent(&frf, "", " ")
			writeFileAtomic(path, js)
			mr = minimiseResult{OK: true, Detail: det, Orig: wl.NDec, Min: wl.NDec}
			mhung, merr = false, nil
			fmt.Printf("note: minimisation of %s was abandoned (a shrunken candidate did not terminate); reporting the unminimised run\n", class)
		}
		if mhung || merr != nil || !mr.OK {
			if mr.Err == "not-reproduced" {
				// (two fresh processes that agree with each other: the simulator is deterministic, the
				// worker's result depended on what the library remembered from its earlier runs)
				if h1, h2 := freshHash(prop, wl.Idx), freshHash(prop, wl.Idx); h1 != "" && h1 == h2 {
					fmt.Printf("note: violation class %s, seen in a worker process that had executed other runs before, does not recur in a fresh process (the library keeps state across runs); not reported\n", class)
					historyDependent++
					continue
				}
				fmt.Printf("NONDETERMINISM: violation %s of run %d (seed %d) did not recur when re-executed\n", class, wl.Idx, wl.Seed)
			} else {
				fmt.Printf("CHECK-ERROR: minimisation of %s (run %d seed %d) failed: hung=%v err=%v %s\n%s\n", class, wl.Idx, wl.Seed, mhung, merr, mr.Err, tailStr(firstFatal(mbuf.String()), 1500))
			}
			exit = 2
			continue
		}
		detail, tries := mr.Detail, mr.Tries
		rf := replayFile{OrigNDec: mr.Orig, NDec: mr.Min}
		// fresh process
		cmd := exec.Command(selfExe(), "-test.run", "^TestVerif$", "-verif.mode", "replay", "-verif.replay", path)
		outb, err := cmd.CombinedOutput()
		code := 0
		if ee, ok := err.(*exec.ExitError); ok {
			code = ee.ExitCode()
		} else if err != nil {
			code = -1
		}
		freshReplay := func(extra ...string) (int, string) {
			c := exec.Command(selfExe(), append([]string{"-test.run", "^TestVerif$", "-verif.mode", "replay", "-verif.replay", path}, extra...)...)
			ob, err := c.CombinedOutput()
			if ee, ok := err.(*exec.ExitError); ok {
				return ee.ExitCode(), strings.TrimSpace(string(ob))
			} else if err != nil {
				return -1, strings.TrimSpace(string(ob))
			}
			return 0, strings.TrimSpace(string(ob))
		}
		if code == 4 {
			// The violation recurs in a fresh process, with another event log than in the process
			// that minimised it: the code under test keeps state across runs (the minimiser
			// executes many candidates in one process). The replay file is re-based on the fresh
			// process, which is what a replay is; it must then reproduce exactly.
			freshReplay("-verif.rehash")
			if c2, _ := freshReplay(); c2 == 1 {
				fmt.Printf("note: replay %s re-based on a fresh process (the library keeps state across runs)\n", path)
				historyDependent++
				code = 1
			}
		}
		if code == 3 {
			// The minimiser runs its candidates in one process: with a library that keeps state
			// across runs a shrunken candidate may "fail" only because of what earlier candidates
			// left behind. Fall back to the run as the worker executed it (the seed alone).
			det := ""
			for _, v := range wl.Viol {
				if v.Class == class {
					det = v.Detail
				}
			}
			frf := replayFile{Property: prop, Class: class, Detail: det, Scenario: wl.Scenario, Seed: wl.Seed, BaseSeed: *fSeed, RunIndex: wl.Idx, Hash: wl.Hash, Config: wl.Config, NDec: wl.NDec, OrigNDec: wl.NDec}
			if js, err := json.MarshalIndent(&frf, "", " "); err == nil {
				writeFileAtomic(path, js)
			}
			c1, _ := freshReplay()
			if c1 == 4 {
				freshReplay("-verif.rehash")
				c1, _ = freshReplay()
			}
			if c1 == 1 {
				fmt.Printf("note: minimisation of %s discarded (its shrunken candidates failed only because of state the library kept between them); reporting the unminimised run\n", class)
				historyDependent++
				code = 1
				detail, rf.NDec = det, wl.NDec
				rf.OrigNDec = wl.NDec
			}
		}
		if code == 3 {
			// Not there at all in a fresh process. If two fresh processes agree with each other the
			// simulator is deterministic and the difference is the library's own memory of earlier
			// runs in the worker: no faithful single-run replay exists, the class is not reported.
			_, o1 := freshReplay()
			_, o2 := freshReplay()
			if o1 == o2 && o1 != "" {
				fmt.Printf("note: violation class %s, seen in a worker process that had executed other runs before, does not recur in a fresh process (the library keeps state across runs); not reported\n", class)
				historyDependent++
				continue
			}
		}
		if code != 1 {
			fmt.Printf("NONDETERMINISM: minimised replay %s did not reproduce in a fresh process (exit %d): %s\n", path, code, strings.TrimSpace(string(outb)))
			exit = 2
			continue
		}
		fmt.Printf("VIOLATION property=%s replay=%s\n", prop, path)
		fmt.Printf("  class=%s runs=%d decisions=%d->%d (minimisation tries %d)\n  %s\n", class, len(lines), rf.OrigNDec, rf.NDec, tries, detail)
		reports = append(reports, reported{Class: class, Detail: detail, Replay: path, Runs: len(lines)})
		if exit == 0 {
			exit = 1
		}
	}

	// evidence
	wall := time.Since(start).Seconds()
	var vio []map[string]interface{}
	for _, r := range reports {
		vio = append(vio, map[string]interface{}{"class": r.Class, "detail": r.Detail, "replay": r.Replay, "runs": r.Runs})
	}
	cov := map[string]interface{}{
		"evaluations":         agg.runs,
		"distinct_nontrivial": len(agg.hashes),
		"rule": "one evaluation = one simulated run (scenario + decision seed) of the real, overlay-instrumented library under the seeded scheduler and fault injector; " +
			"non-trivial = at least one fault actually fired or at least two tasks/events were simultaneously enabled at some step; distinct = distinct hash of the complete event log (schedule, wire bytes, API results)",
		"samples":                          agg.samples,
		"steps_total":                      agg.steps,
		"sim_time_covered_s":               float64(agg.simNs) / 1e9,
		"runs_per_hour":                    float64(agg.runs) / searchWall.Hours(),
		"seeds_per_hour":                   float64(agg.runs) / searchWall.Hours(),
		"faults_fired":                     agg.faults,
		"probes":                           agg.probes,
		"distinct_interleavings":           len(agg.scheds),
		"distinct_interleavings_measure":   "distinct hashes of the (task spawn site, scheduling site) release sequence plus event firings of a run",
		"distinct_states_sum_over_workers": agg.states,
		"distinct_states_measure":          "abstract state = multiset over live tasks of (spawn site, current scheduling site, waiting?) plus pending-event count (capped at 8), sampled at every quiescent point; distinct per worker process, summed over workers (upper bound of the union)",
		"multi_enabled_steps":              agg.multi,
		"equal_deadline_timer_steps":       agg.ties,
		"scenarios":                        agg.scen,
		"outcomes":                         agg.outcomes,
		"determinism_rechecks":             agg.rechecks,
		"determinism_recheck_failures":     len(agg.recheckBad) - historyDependent,
		"history_dependent_runs":           historyDependent,
		"violations_of_other_properties_seen_not_reported": agg.otherViol,
		"violations_of_other_properties_by_class":          agg.otherCls,
		"known_findings_hit":                               knownHit,
		"violation_reports":                                vio,
		"workers":                                          workers,
		"components_real": []string{"knx.Tunnel/GroupTunnel/Router/GroupRouter/DescribeTunnel/Discover (tunnel.go, router.go, groups.go, describe.go, discover.go: instrumented by simgen T1-T6 from /repo's working tree)",
			"knxnet.TunnelSocket/RouterSocket/serveUDPSocket/serveTCPSocket (socket.go: T1-T7)", "all Pack/Unpack/Size code of knxnet, cemi, util, dpt (unmodified)"},
		"components_stub": []string{"net + x/net/ipv4 + kernel buffers + wire: simnet", "time, sync, math/rand, goroutine scheduling: simrt (+ testing/synctest for quiescence)",
			"KNXnet/IP gateway, KNX bus, multicast peers, search/description responders: harness actors", "application code (senders, readers, closers): harness tasks"},
	}
	ev := map[string]interface{}{
		"property_id": prop,
		"tier":        *fTier,
		"seed":        int64(*fSeed),
		"level":       "exploration",
		"coverage":    cov,
		"assumptions": []string{
			"go1.26.8 toolchain and testing/synctest quiescence detection",
			"simgen rewrites T1-T7 preserve behaviour (checked by running the repository's own tests against the overlaid build)",
			"simrt timer/ticker/mutex/once/waitgroup models and simnet datagram/stream models follow the documented contracts of time, sync and net",
			"the gateway/peer actors follow the KNXnet/IP rules quoted in the property statements",
			"a clean batch is evidence over the sampled schedules and fault sequences, not a proof",
		},
		"wall_s":     wall,
		"violations": len(reports),
	}
	if exit == 2 && len(reports) > 0 {
		// Part of the batch went wrong (a worker was lost, a crash did not recur), but at least one
		// violation was re-executed, minimised and reproduced in fresh processes: that stands on its
		// own feet, and it is what the caller needs to hear.
		fmt.Println("note: the trouble reported above concerns other runs of this batch; the violations listed were each reproduced in a fresh process")
		cov["batch_trouble"] = "some runs of this batch could not be judged (lost worker or a crash that did not recur); the reported violations were each reproduced in a fresh process"
		exit = 1
	}
	js, _ := json.MarshalIndent(ev, "", " ")
	evPath := filepath.Join(outDir, "evidence", prop+".json")
	if exit != 2 {
		if err := writeFileAtomic(evPath, js); err != nil {
			fmt.Println("cannot write evidence:", err)
			exit = 2
		}
	}
	fmt.Printf("check %s tier=%s seed=%d: runs=%d distinct_nontrivial=%d steps=%d sim_time=%.0fs wall=%.1fs violations=%d known=%d exit=%d\n",
		prop, *fTier, *fSeed, agg.runs, len(agg.hashes), agg.steps, float64(agg.simNs)/1e9, wall, len(reports), len(knownHit), exit)
	if agg.runs == 0 && exit == 0 {
		fmt.Println("no runs executed")
		exit = 2
	}
	os.Exit(exit)
}

func sanitize(s string) string {
	var b strings.Builder
	for _, c := range s {
		if c >= 'a' && c <= 'z' || c >= 'A' && c <= 'Z' || c >= '0' && c <= '9' || c == '-' || c == '_' {
			b.WriteRune(c)
		} else {
			b.WriteByte('_')
		}
	}
	return b.String()
}

// ---------------------------------------------------------------------------------------
// determinism self-test: executes -verif.count seeds of a property and prints "idx hash" lines;
// the check script runs this in several processes at different GOMAXPROCS and diffs the output.

func determinismMain(t *testing.T) {
	for i := 0; i < *fCount; i++ {
		idx := *fFrom + i
		if *fStride == 0 {
			idx = *fFrom // the same run again and again in one process (debugging history dependence)
		}
		spec := specFor(*fSeed, *fProp, idx)
		spec.Trace = *fVerbose
		res := Execute(t, spec)
		fmt.Printf("D %s %d %s %s %d %q\n", *fProp, idx, res.Hash, res.SchedHash, res.Steps, res.HarnessErr)
		for _, l := range res.Trace {
			fmt.Println("T", i, l)
		}
	}
}

// ---------------------------------------------------------------------------------------
// crashes and hangs

// hangAfter is the real time without any progress after which a worker is declared hung. A run
// takes milliseconds (the 600-Send wrap runs a second or two).
// minimiseBudget bounds the delta debugging of one violation class.
var minimiseBudget = func() time.Duration {
	if d, err := time.ParseDuration(os.Getenv("VERIF_MINIMISE")); err == nil {
		return d
	}
	return 20 * time.Second
}()

const hangAfter = 45 * time.Second

// hangSignal watches a child process and fires when it is hung: it has burnt hangAfter of CPU
// time without reporting progress (an endless loop), or it has reported nothing for hangAfter of
// real time while using next to no CPU (blocked for good), or nothing at all for 15 minutes.
// Judging by CPU time keeps the verdict independent of how loaded the machine is. progress (may
// be nil) holds the UnixNano of the child's last output line.
func hangSignal(pid int, progress *atomic.Int64, stop <-chan struct{}) <-chan struct{} {
	out := make(chan struct{})
	go func() {
		tk := time.NewTicker(2 * time.Second)
		defer tk.Stop()
		lastSeen := int64(0)
		if progress != nil {
			lastSeen = progress.Load()
		}
		since := time.Now()
		base := procCPU(pid)
		for {
			select {
			case <-stop:
				return
			case <-tk.C:
			}
			if progress != nil {
				if v := progress.Load(); v != lastSeen {
					lastSeen, since, base = v, time.Now(), procCPU(pid)
					continue
				}
			}
			cpu := procCPU(pid) - base
			wall := time.Since(since)
			if cpu > hangAfter || (wall > hangAfter && cpu < wall/50) || wall > 15*time.Minute {
				close(out)
				return
			}
		}
	}()
	return out
}

// done2 turns the completion channel of a child into a stop channel for hangSignal without
// consuming its value.
func done2(done chan error) <-chan struct{} {
	c := make(chan struct{})
	go func() {
		err := <-done
		done <- err
		close(c)
	}()
	return c
}

// procCPU is the CPU time (user+system) a process has used so far; 0 if it cannot be read.
func procCPU(pid int) time.Duration {
	b, err := os.ReadFile(fmt.Sprintf("/proc/%d/stat", pid))
	if err != nil {
		return 0
	}
	st := string(b)
	if i := strings.LastIndexByte(st, ')'); i >= 0 {
		st = st[i+1:]
	}
	f := strings.Fields(st)
	if len(f) < 13 {
		return 0
	}
	ut, _ := strconv.ParseInt(f[11], 10, 64)
	stt, _ := strconv.ParseInt(f[12], 10, 64)
	return time.Duration(ut+stt) * (time.Second / 100)
}

type crashInfo struct {
	Idx    int
	Spec   RunSpec
	Hung   bool
	Stderr string
}

func tailStr(s string, n int) string {
	if len(s) > n {
		return s[:n]
	}
	return s
}

func firstFatal(stderr string) string {
	for _, key := range []string{"fatal error:", "panic:"} {
		if i := strings.Index(stderr, key); i >= 0 {
			return stderr[i:]
		}
	}
	return stderr
}

// libFrames returns the library functions (not simrt/simnet/harness) on the stack of the
// crashing or spinning goroutine.
func libFrames(stderr string) []string {
	var out []string
	seen := map[string]bool{}
	for _, l := range strings.Split(stderr, "\n") {
		l = strings.TrimSpace(l)
		if !strings.HasPrefix(l, "github.com/vapourismo/knx-go/knx") {
			continue
		}
		if strings.Contains(l, "/simrt.") || strings.Contains(l, "/simnet.") {
			continue
		}
		fn := l
		if i := strings.Index(fn, "("); i > 0 && strings.HasSuffix(fn, ")") {
			// strip the argument list
			if j := strings.LastIndex(fn, "("); j > 0 {
				fn = fn[:j]
			}
		}
		fn = strings.TrimPrefix(fn, "github.com/vapourismo/knx-go/")
		if !seen[fn] {
			seen[fn] = true
			out = append(out, fn)
		}
		if len(out) >= 6 {
			break
		}
	}
	return out
}

// classifyCrash turns the death of a worker into a violation class and the property that owns
// it; class "" means the death is not attributable to the library (machine or harness trouble).
func classifyCrash(ci crashInfo) (class, owner string) {
	owner = panicOwner[ci.Spec.Scenario]
	if ci.Hung {
		// only a goroutine that is running (not blocked) inside library code is a library hang
		running := ""
		for _, blk := range strings.Split(ci.Stderr, "\n\n") {
			// (a goroutine that allocates in a loop is often caught helping the collector)
			if strings.Contains(blk, "[running") || strings.Contains(blk, "[runnable") || strings.Contains(blk, "[GC assist") {
				if fr := libFrames(blk); len(fr) > 0 {
					running = fr[0]
					break
				}
			}
		}
		if running == "" {
			return "", owner
		}
		return "hang", owner
	}
	ff := firstFatal(ci.Stderr)
	if !strings.HasPrefix(ff, "fatal error:") && !strings.HasPrefix(ff, "panic:") {
		return "", owner
	}
	line := ff
	if i := strings.Index(line, "\n"); i >= 0 {
		line = line[:i]
	}
	fr := libFrames(ff)
	if len(fr) == 0 {
		return "", owner
	}
	for _, f := range fr {
		if strings.Contains(f, "requestTunnel") && ci.Spec.Prop == "C03" {
			owner = "C03"
		}
	}
	return "crash:" + sanitize(strings.TrimSpace(line)), owner
}

func crashDetail(ci crashInfo) string {
	what := "the run killed its process"
	if ci.Hung {
		what = "the run made no progress for " + hangAfter.String() + " of real time while a goroutine was running library code"
	}
	ff := firstFatal(ci.Stderr)
	line := ff
	if i := strings.Index(line, "\n"); i >= 0 {
		line = line[:i]
	}
	return fmt.Sprintf("%s: %s; library frames: %s", what, strings.TrimSpace(line), strings.Join(libFrames(ff), " <- "))
}

// ---------------------------------------------------------------------------------------
// minimise (child process of check)

type minimiseResult struct {
	OK     bool   `json:"ok"`
	Err    string `json:"err,omitempty"`
	Detail string `json:"detail"`
	Orig   int    `json:"orig"`
	Min    int    `json:"min"`
	Tries  int    `json:"tries"`
}

func minimiseMain(t *testing.T) {
	prop, class := *fProp, *fClass
	emit := func(r minimiseResult) {
		js, _ := json.Marshal(&r)
		fmt.Printf("MINIMISED %s\n", js)
	}
	spec := RunSpec{Scenario: *fScenario, Prop: prop, Seed: *fSeed}
	first := Execute(t, spec)
	if !hasClass(prop, class, first) {
		emit(minimiseResult{Err: "not-reproduced"})
		return
	}
	spec.Decisions = cloneDec(first.Decisions)
	mspec, mres, tries := minimise(t, spec, prop, class, minimiseBudget)
	if mres == nil {
		mspec, mres = spec, first
	}
	mspec.Trace = true
	tr := Execute(t, mspec)
	detail := ""
	for _, v := range ownViolations(prop, tr) {
		if v.Class == class {
			detail = v.Detail
			break
		}
	}
	tail := tr.Trace
	if len(tail) > 400 {
		tail = tail[len(tail)-400:]
	}
	rf := replayFile{Property: prop, Class: class, Detail: detail, Scenario: mspec.Scenario, Seed: mspec.Seed, BaseSeed: *fBaseSeed, RunIndex: *fFrom,
		Decisions: mspec.Decisions, NDec: countDec(mspec.Decisions), OrigNDec: countDec(first.Decisions), Hash: tr.Hash, Config: tr.Config, Trace: tail}
	path := *fReplay
	js, _ := json.MarshalIndent(&rf, "", " ")
	writeFileAtomic(path, js)
	emit(minimiseResult{OK: true, Detail: detail, Orig: rf.OrigNDec, Min: rf.NDec, Tries: tries})
}

// writeFileAtomic writes through a temporary file and a rename, so that a concurrent reader (another
// invocation of a check, the race-mode post-processor) never sees half a file.
func writeFileAtomic(path string, data []byte) error {
	tmp := fmt.Sprintf("%s.%d.tmp", path, os.Getpid())
	if err := os.WriteFile(tmp, data, 0o644); err != nil {
		return err
	}
	return os.Rename(tmp, path)
}

// freshHash executes one run in a fresh process and returns the hash of its event log ("" on failure).
func freshHash(prop string, idx int) string {
	cmd := exec.Command(selfExe(), "-test.run", "^TestVerif$", "-test.timeout", "10m", "-verif.mode", "determinism", "-verif.prop", prop,
		"-verif.seed", strconv.FormatUint(*fSeed, 10), "-verif.from", strconv.Itoa(idx), "-verif.count", "1")
	out, _ := cmd.Output()
	for _, l := range strings.Split(string(out), "\n") {
		if f := strings.Fields(l); len(f) >= 4 && f[0] == "D" {
			return f[3]
		}
	}
	return ""
}
