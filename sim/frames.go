package sim

// Independent reader/writer for the fixed-layout KNXnet/IP frames the oracles look at.
// Deliberately NOT the library's codec: offsets and masks are taken from the KNXnet/IP core,
// tunnelling and routing layouts so that a change to the library's packers or decoders cannot
// hide itself from the oracles.

import (
	"encoding/binary"
	"fmt"
)

const (
	svcSearchReq    = 0x0201
	svcSearchRes    = 0x0202
	svcDescrReq     = 0x0203
	svcDescrRes     = 0x0204
	svcConnReq      = 0x0205
	svcConnRes      = 0x0206
	svcConnStateReq = 0x0207
	svcConnStateRes = 0x0208
	svcDiscReq      = 0x0209
	svcDiscRes      = 0x020a
	svcTunnelReq    = 0x0420
	svcTunnelRes    = 0x0421
	svcRoutingInd   = 0x0530
	svcRoutingLost  = 0x0531
	svcRoutingBusy  = 0x0532
)

// Frame is the oracle's view of one KNXnet/IP frame.
type Frame struct {
	OK      bool // header well formed and total length == len(raw)
	Svc     uint16
	Raw     []byte
	Body    []byte
	Channel uint8
	Seq     uint8
	Status  uint8
	HPAI    []byte // first HPAI of the body, 8 bytes, if the service carries one
	HPAI2   []byte
	CEMI    []byte // cEMI part of TunnelReq / RoutingInd
	Count   uint16 // RoutingLost
	Wait    uint16 // RoutingBusy
	Control uint16 // RoutingBusy
}

func parseFrame(raw []byte) Frame {
	f := Frame{Raw: raw}
	if len(raw) < 6 || raw[0] != 6 || raw[1] != 0x10 {
		return f
	}
	f.Svc = binary.BigEndian.Uint16(raw[2:4])
	if int(binary.BigEndian.Uint16(raw[4:6])) != len(raw) {
		return f
	}
	b := raw[6:]
	f.Body = b
	switch f.Svc {
	case svcConnReq:
		if len(b) != 20 {
			return f
		}
		f.HPAI, f.HPAI2 = b[0:8], b[8:16]
	case svcConnRes:
		if len(b) < 2 {
			return f
		}
		f.Channel, f.Status = b[0], b[1]
		if len(b) >= 10 {
			f.HPAI = b[2:10]
		}
	case svcConnStateReq, svcDiscReq:
		if len(b) != 10 {
			return f
		}
		f.Channel, f.Status = b[0], b[1]
		f.HPAI = b[2:10]
	case svcConnStateRes, svcDiscRes:
		if len(b) != 2 {
			return f
		}
		f.Channel, f.Status = b[0], b[1]
	case svcTunnelReq:
		if len(b) < 5 || b[0] != 4 {
			return f
		}
		f.Channel, f.Seq = b[1], b[2]
		f.CEMI = b[4:]
		if len(f.CEMI) > 0 && (f.CEMI[0] == 0x11 || f.CEMI[0] == 0x29 || f.CEMI[0] == 0x2e) && !parseLData(f.CEMI).OK {
			return f // an L_Data frame that does not add up: no tunnelling request at all
		}
	case svcTunnelRes:
		if len(b) != 4 || b[0] != 4 {
			return f
		}
		f.Channel, f.Seq, f.Status = b[1], b[2], b[3]
	case svcRoutingInd:
		if len(b) < 1 {
			return f
		}
		f.CEMI = b
	case svcRoutingLost:
		if len(b) != 4 {
			return f
		}
		f.Status = b[1]
		f.Count = binary.BigEndian.Uint16(b[2:4])
	case svcRoutingBusy:
		if len(b) != 6 {
			return f
		}
		f.Status = b[1]
		f.Wait = binary.BigEndian.Uint16(b[2:4])
		f.Control = binary.BigEndian.Uint16(b[4:6])
	case svcSearchReq, svcDescrReq:
		if len(b) != 8 {
			return f
		}
		f.HPAI = b[0:8]
	case svcSearchRes:
		if len(b) < 8 {
			return f
		}
		f.HPAI = b[0:8]
	}
	f.OK = true
	return f
}

func (f Frame) String() string {
	if !f.OK {
		return fmt.Sprintf("malformed(%x)", f.Raw)
	}
	switch f.Svc {
	case svcConnReq:
		return fmt.Sprintf("ConnReq{%x}", f.Body)
	case svcConnRes:
		return fmt.Sprintf("ConnRes{ch=%d st=%#x}", f.Channel, f.Status)
	case svcConnStateReq:
		return fmt.Sprintf("ConnStateReq{ch=%d}", f.Channel)
	case svcConnStateRes:
		return fmt.Sprintf("ConnStateRes{ch=%d st=%#x}", f.Channel, f.Status)
	case svcDiscReq:
		return fmt.Sprintf("DiscReq{ch=%d}", f.Channel)
	case svcDiscRes:
		return fmt.Sprintf("DiscRes{ch=%d st=%#x}", f.Channel, f.Status)
	case svcTunnelReq:
		return fmt.Sprintf("TunnelReq{ch=%d seq=%d cemi=%x}", f.Channel, f.Seq, f.CEMI)
	case svcTunnelRes:
		return fmt.Sprintf("TunnelRes{ch=%d seq=%d st=%#x}", f.Channel, f.Seq, f.Status)
	case svcRoutingInd:
		return fmt.Sprintf("RoutingInd{%x}", f.CEMI)
	case svcRoutingLost:
		return fmt.Sprintf("RoutingLost{n=%d}", f.Count)
	case svcRoutingBusy:
		return fmt.Sprintf("RoutingBusy{wait=%d ctl=%d}", f.Wait, f.Control)
	}
	return fmt.Sprintf("svc%#04x{%x}", f.Svc, f.Body)
}

func mkFrame(svc uint16, body []byte) []byte {
	b := make([]byte, 6+len(body))
	b[0], b[1] = 6, 0x10
	binary.BigEndian.PutUint16(b[2:], svc)
	binary.BigEndian.PutUint16(b[4:], uint16(len(b)))
	copy(b[6:], body)
	return b
}

func mkHPAI(proto byte, ip [4]byte, port uint16) []byte {
	return []byte{8, proto, ip[0], ip[1], ip[2], ip[3], byte(port >> 8), byte(port)}
}

func mkConnRes(ch, status uint8, hpai []byte) []byte {
	if status != 0 {
		return mkFrame(svcConnRes, []byte{ch, status})
	}
	b := []byte{ch, 0}
	b = append(b, hpai...)
	b = append(b, 4, 4, 0x11, 0x05) // CRD: tunnel connection, individual address 1.1.5
	return mkFrame(svcConnRes, b)
}

func mkConnStateRes(ch, status uint8) []byte { return mkFrame(svcConnStateRes, []byte{ch, status}) }
func mkDiscRes(ch, status uint8) []byte      { return mkFrame(svcDiscRes, []byte{ch, status}) }
func mkDiscReq(ch uint8, hpai []byte) []byte {
	return mkFrame(svcDiscReq, append([]byte{ch, 0}, hpai...))
}
func mkTunnelRes(ch, seq, status uint8) []byte {
	return mkFrame(svcTunnelRes, []byte{4, ch, seq, status})
}
func mkTunnelReq(ch, seq uint8, cemi []byte) []byte {
	return mkFrame(svcTunnelReq, append([]byte{4, ch, seq, 0}, cemi...))
}
func mkRoutingInd(cemi []byte) []byte { return mkFrame(svcRoutingInd, cemi) }
func mkRoutingLost(state uint8, count uint16) []byte {
	return mkFrame(svcRoutingLost, []byte{4, state, byte(count >> 8), byte(count)})
}
func mkRoutingBusy(state uint8, waitMs uint16, control uint16) []byte {
	return mkFrame(svcRoutingBusy, []byte{6, state, byte(waitMs >> 8), byte(waitMs), byte(control >> 8), byte(control)})
}

// LDataView is the independent reading of a cEMI L_Data frame (fixed offsets from the cEMI
// specification): code | addil | addinfo… | ctrl1 | ctrl2 | src(2) | dst(2) | len | tpci/apci | data…
type LDataView struct {
	OK       bool
	Code     uint8
	Info     []byte
	Ctrl1    uint8
	Ctrl2    uint8
	Src, Dst uint16
	Len      uint8
	Control  bool // transport control unit (bit 7 of the TPCI octet)
	Numbered bool
	TSeq     uint8
	APCI     uint8
	Data     []byte // application payload: first byte holds the low 6 bits
}

func parseLData(c []byte) LDataView {
	var v LDataView
	if len(c) < 2 {
		return v
	}
	v.Code = c[0]
	il := int(c[1])
	if len(c) < 2+il+7+1 {
		return v
	}
	v.Info = c[2 : 2+il]
	p := c[2+il:]
	v.Ctrl1, v.Ctrl2 = p[0], p[1]
	v.Src = binary.BigEndian.Uint16(p[2:4])
	v.Dst = binary.BigEndian.Uint16(p[4:6])
	v.Len = p[6]
	tp := p[7]
	v.Control = tp&0x80 != 0
	v.Numbered = tp&0x40 != 0
	v.TSeq = (tp >> 2) & 15
	if v.Control {
		v.OK = len(p) == 8
		return v
	}
	if len(p) < 9 || int(v.Len) < 1 || len(p) != 8+int(v.Len) {
		return v
	}
	v.APCI = (tp&3)<<2 | p[8]>>6
	v.Data = append([]byte(nil), p[8:]...)
	v.Data[0] &= 0x3f
	v.OK = true
	return v
}

// mkLData builds a cEMI L_Data frame with an application transport unit.
func mkLData(code, ctrl1, ctrl2 uint8, src, dst uint16, apci uint8, data []byte, info []byte) []byte {
	if len(data) == 0 {
		data = []byte{0}
	}
	b := []byte{code, byte(len(info))}
	b = append(b, info...)
	b = append(b, ctrl1, ctrl2, byte(src>>8), byte(src), byte(dst>>8), byte(dst), byte(len(data)))
	b = append(b, (apci>>2)&3)
	d := append([]byte(nil), data...)
	d[0] = d[0]&0x3f | (apci&3)<<6
	return append(b, d...)
}

// mkLDataControl builds a cEMI L_Data frame with a transport control unit.
func mkLDataControl(code, ctrl1, ctrl2 uint8, src, dst uint16, cmd uint8) []byte {
	return []byte{code, 0, ctrl1, ctrl2, byte(src >> 8), byte(src), byte(dst >> 8), byte(dst), 0, 0x80 | cmd&3}
}

// telegram ids: every telegram of a run carries a unique 16-bit id in its destination address
// and again in payload bytes 1..2, so that every wire frame and every delivery is attributable.
func idCEMI(code uint8, id int) []byte {
	return mkLData(code, 0xbc, 0xe0, 0x1105, uint16(id), 2, []byte{0, byte(id >> 8), byte(id)}, nil)
}

// busmonCEMI is a bus monitor indication carrying a telegram id (three times over, so that a
// value patched together from two telegrams is recognised as neither).
func busmonCEMI(id int, pad int) []byte {
	h, l := byte(id>>8), byte(id)
	b := []byte{0x2b, 'B', 'M', h, l, h, l, h, l}
	if pad > 0 {
		// a long raw frame: its length is part of it, so that a cut copy is recognised as no telegram at all
		b = append(b, byte(pad>>8), byte(pad))
		for i := 0; i < pad; i++ {
			b = append(b, byte(id+3*i))
		}
	}
	return b
}

func busmonID(body []byte) int {
	if len(body) < 8 || body[0] != 'B' || body[1] != 'M' || body[2] != body[4] || body[3] != body[5] || body[2] != body[6] || body[3] != body[7] {
		return -1
	}
	id := int(body[2])<<8 | int(body[3])
	if len(body) == 8 {
		return id
	}
	if len(body) < 10 {
		return -1
	}
	pad := int(body[8])<<8 | int(body[9])
	if pad == 0 || len(body) != 10+pad {
		return -1
	}
	for i := 0; i < pad; i++ {
		if body[10+i] != byte(id+3*i) {
			return -1
		}
	}
	return id
}

func cemiID(c []byte) int {
	if len(c) > 0 && c[0] == 0x2b {
		return busmonID(c[1:])
	}
	v := parseLData(c)
	if !v.OK || len(v.Data) != 3 {
		return -1
	}
	id := int(v.Data[1])<<8 | int(v.Data[2])
	if int(v.Dst) != id {
		return -1
	}
	return id
}
