package sim

import (
	"fmt"
	"net"
	"reflect"
	"runtime/debug"
	"strings"
	"time"

	"github.com/vapourismo/knx-go/knx/cemi"
	"github.com/vapourismo/knx-go/knx/knxnet"
	"github.com/vapourismo/knx-go/knx/simnet"
	"github.com/vapourismo/knx-go/knx/simrt"
)

// The socket scenarios drive knxnet.DialTunnelUDP / DialTunnelTCP / ListenRouterOnInterface
// directly: a peer transmits streams of frames (well formed in "socket", hostile in
// "decoder"), a consumer drains Inbound(), senders call Send concurrently, and Close / peer
// EOF / RST race with reception.

type sockCfg struct {
	Kind     string // udp | tcp | router
	Hostile  bool
	Frames   int
	Senders  int
	Sends    int
	Consumer string // ready | slow
	End      string // close | peer-eof | peer-rst | read-error
	Dribble  string // tcp segmentation: whole | bytes | random | header-split
	TCPCut   bool
	Sticky   int
	Gap      time.Duration
}

func (c sockCfg) String() string {
	return fmt.Sprintf("kind=%s hostile=%v frames=%d senders=%dx%d consumer=%s end=%s dribble=%s tcpcut=%v sticky=%d gap=%v",
		c.Kind, c.Hostile, c.Frames, c.Senders, c.Sends, c.Consumer, c.End, c.Dribble, c.TCPCut, c.Sticky, c.Gap)
}

func init() {
	register(&Scenario{Name: "socket", Props: []string{"C16"}, Run: func(e *Env) { runSocket(e, false) }})
	register(&Scenario{Name: "decoder", Props: []string{"C01"}, Run: func(e *Env) { runSocket(e, true) }})
}

// refDecode decodes a fresh exact-capacity copy of b with the library's decoder.
func refDecode(b []byte) (svc knxnet.Service, n uint, err error, panicked string) {
	cp := make([]byte, len(b))
	copy(cp, b)
	defer func() {
		if r := recover(); r != nil {
			panicked = fmt.Sprintf("%s | %s", scrub(fmt.Sprint(r)), trimStack(string(debug.Stack())))
		}
	}()
	n, err = knxnet.Unpack(cp, &svc)
	return
}

// panicSite names the innermost library function on a trimmed stack (stable class key).
func panicSite(p string) string {
	for _, part := range strings.Split(p, " | ") {
		part = strings.TrimSpace(part)
		if strings.HasPrefix(part, "github.com/vapourismo/knx-go/knx/") {
			fn := strings.TrimPrefix(part, "github.com/vapourismo/knx-go/knx/")
			if strings.Contains(fn, "refDecode") {
				continue
			}
			return fn
		}
	}
	return "?"
}

type genFrame struct {
	raw  []byte
	desc string
}

// frame generator ------------------------------------------------------------------------

func (g *frameGen) bytes(kind string, n int) []byte {
	b := make([]byte, n)
	for i := range b {
		b[i] = byte(g.e.Choose(kind, 256))
	}
	return b
}

type frameGen struct {
	e          *Env
	wellFormed map[string]string // raw bytes of every frame built as well formed -> its kind
	illFormed  map[string]string // raw bytes of every frame built as ill formed whatever a decoder says -> why
}

func (g *frameGen) hostInfo() knxnet.HostInfo {
	if g.e.Choose("wl.natendpoint", 6) == 0 {
		// the route-back endpoint (address and port zero): what a client behind NAT announces
		return knxnet.HostInfo{Protocol: knxnet.Protocol(1 + g.e.Choose("wl.proto", 2))}
	}
	return knxnet.HostInfo{Protocol: knxnet.Protocol(1 + g.e.Choose("wl.proto", 2)), Address: knxnet.Address{10, 0, byte(g.e.Choose("wl.ip", 256)), 7}, Port: knxnet.Port(1 + g.e.Choose("wl.port", 65535))}
}

func (g *frameGen) cemiMessage() cemi.Message {
	e := g.e
	ld := cemi.LData{
		Control1:    cemi.ControlField1(e.Choose("wl.c1", 256)),
		Control2:    cemi.ControlField2(e.Choose("wl.c2", 256)),
		Source:      cemi.IndividualAddr(e.Choose("wl.src", 65536)),
		Destination: uint16(e.Choose("wl.dst", 65536)),
	}
	if e.Choose("wl.info", 4) == 0 {
		ld.Info = cemi.Info(g.bytes("wl.infob", 1+e.Choose("wl.infolen", 255)))
	}
	if e.Choose("wl.tpdu", 5) == 0 {
		ld.Data = &cemi.ControlData{Numbered: e.Choose("wl.num", 2) == 1, SeqNumber: uint8(e.Choose("wl.tseq", 16)), Command: uint8(e.Choose("wl.ccmd", 4))}
	} else {
		n := []int{1, 1, 2, 3, 15, 16, 100, 254, 0}[e.Choose("wl.applen", 9)]
		d := g.bytes("wl.appb", n)
		if n > 0 {
			d[0] &= 0x3f
		}
		ld.Data = &cemi.AppData{Numbered: e.Choose("wl.num", 2) == 1, SeqNumber: uint8(e.Choose("wl.tseq", 16)), Command: cemi.APCI(e.Choose("wl.apci", 16)), Data: d}
	}
	switch e.Choose("wl.cemikind", 8) {
	case 0:
		return &cemi.LDataReq{LData: ld}
	case 1:
		return &cemi.LDataCon{LData: ld}
	case 2, 3, 4:
		return &cemi.LDataInd{LData: ld}
	case 5:
		return &cemi.LRawReq{LRaw: cemi.LRaw(g.bytes("wl.rawb", 1+e.Choose("wl.rawlen", 40)))}
	case 6:
		b := cemi.LBusmonInd(g.bytes("wl.rawb", 1+e.Choose("wl.rawlen", 40)))
		return &b
	}
	return &cemi.UnsupportedMessage{Code: cemi.MessageCode(0x70 + e.Choose("wl.ucode", 8)), Data: g.bytes("wl.rawb", e.Choose("wl.rawlen", 40))}
}

// valid returns one well-formed frame of a decision-chosen service.
func (g *frameGen) valid(router bool) genFrame {
	e := g.e
	ch, seq := uint8(e.Choose("wl.ch", 256)), uint8(e.Choose("wl.seq", 256))
	kinds := []string{"connreq", "connres", "connres-err", "statereq", "stateres", "discreq", "discres", "tunreq", "tunreq", "tunreq", "tunres", "routind", "routind", "lost", "busy", "searchreq", "descrreq", "searchres", "descrres", "unknown", "minimal", "sized"}
	if router {
		kinds = []string{"routind", "routind", "routind", "routind", "lost", "busy", "searchreq", "searchres", "unknown", "minimal", "sized"}
	}
	k := kinds[e.Choose("wl.kind", len(kinds))]
	var raw []byte
	switch k {
	case "connreq":
		raw = knxnet.AllocAndPack(&knxnet.ConnReq{Control: g.hostInfo(), Tunnel: g.hostInfo(), Layer: knxnet.TunnelLayerData})
	case "connres":
		raw = knxnet.AllocAndPack(&knxnet.ConnRes{Channel: ch, Control: g.hostInfo()})
	case "connres-err":
		raw = knxnet.AllocAndPack(&knxnet.ConnRes{Channel: ch, Status: knxnet.ErrCode(1 + e.Choose("wl.st", 255))})
	case "statereq":
		raw = knxnet.AllocAndPack(&knxnet.ConnStateReq{Channel: ch, Control: g.hostInfo()})
	case "stateres":
		raw = knxnet.AllocAndPack(&knxnet.ConnStateRes{Channel: ch, Status: knxnet.ErrCode(e.Choose("wl.st", 256))})
	case "discreq":
		raw = knxnet.AllocAndPack(&knxnet.DiscReq{Channel: ch, Control: g.hostInfo()})
	case "discres":
		raw = knxnet.AllocAndPack(&knxnet.DiscRes{Channel: ch, Status: uint8(e.Choose("wl.st", 256))})
	case "tunreq":
		raw = knxnet.AllocAndPack(&knxnet.TunnelReq{Channel: ch, SeqNumber: seq, Payload: g.cemiMessage()})
	case "tunres":
		raw = knxnet.AllocAndPack(&knxnet.TunnelRes{Channel: ch, SeqNumber: seq, Status: knxnet.ErrCode(e.Choose("wl.st", 256))})
	case "routind":
		raw = knxnet.AllocAndPack(&knxnet.RoutingInd{Payload: g.cemiMessage()})
	case "lost":
		raw = mkRoutingLost(uint8(e.Choose("wl.st", 4)), uint16(e.Choose("wl.count", 65536)))
	case "busy":
		raw = mkRoutingBusy(uint8(e.Choose("wl.st", 4)), uint16(e.Choose("wl.wait", 1000)), uint16(e.Choose("wl.ctl", 3)))
	case "searchreq":
		raw = knxnet.AllocAndPack(&knxnet.SearchReq{HostInfo: g.hostInfo()})
	case "descrreq":
		raw = knxnet.AllocAndPack(&knxnet.DescriptionReq{HostInfo: g.hostInfo()})
	case "searchres", "descrres":
		// built by hand: the library cannot encode these two services
		name := make([]byte, 30)
		copy(name, "gateway "+fmt.Sprint(e.Choose("wl.name", 1000)))
		dev := append([]byte{54, 1, 0x02, 0, 0x11, 0x01, 0, 0, 1, 2, 3, 4, 5, 6, 224, 0, 23, 12, 1, 2, 3, 4, 5, 6}, name...)
		nf := e.Choose("wl.nfam", 6)
		fam := []byte{byte(2 + 2*nf), 2}
		for i := nf; i > 0; i-- {
			fam = append(fam, byte(2+i), byte(i))
		}
		if e.Choose("wl.extradib", 2) == 1 {
			// further description blocks of the kinds the library keeps unparsed (IP configuration,
			// current configuration, KNX addresses, manufacturer data), of every length from 2 up
			for j := 1 + e.Choose("wl.nextradib", 3); j > 0; j-- {
				ty := []byte{3, 4, 5, 0xfe}[e.Choose("wl.extradibty", 4)]
				n := e.Choose("wl.extradiblen", 24)
				fam = append(fam, byte(2+n), ty)
				fam = append(fam, g.bytes("wl.extradibb", n)...)
			}
		}
		if k == "searchres" {
			raw = mkFrame(svcSearchRes, append(append(mkHPAI(1, [4]byte{10, 0, 0, 9}, 3671), dev...), fam...))
		} else {
			raw = mkFrame(svcDescrRes, append(dev, fam...))
		}
	case "unknown":
		raw = mkFrame(uint16(0x0900+e.Choose("wl.usvc", 16)), g.bytes("wl.ub", e.Choose("wl.ulen", 30)))
	case "minimal":
		raw = mkFrame(svcConnStateRes, []byte{ch, 0}) // the 8-byte minimum
	case "sized":
		// total lengths around the points where the 16-bit length field carries into its high octet
		// (... and the size of the receiver's buffer, 1024, which a frame may fill exactly)
		total := []int{255, 256, 257, 258, 259, 260, 261, 262, 511, 512, 513, 517, 518, 767, 768, 770, 1000, 1023, 1024, 1024}[e.Choose("wl.sized", 20)]
		b := cemi.LBusmonInd(g.bytes("wl.sizedb", 8))
		b = append(b, make([]byte, total-7-8)...)
		for j := 8; j < len(b); j += 31 {
			b[j] = byte(j)
		}
		raw = knxnet.AllocAndPack(&knxnet.RoutingInd{Payload: &b})
	}
	g.wellFormed[string(raw)] = k
	return genFrame{raw: raw, desc: k}
}

// hostile derives a malformed frame from a valid one.
func (g *frameGen) hostile(router bool) genFrame {
	e := g.e
	f := g.valid(router)
	b := append([]byte(nil), f.raw...)
	fixLen := func() {
		if len(b) >= 6 {
			b[4], b[5] = byte(len(b)>>8), byte(len(b))
		}
	}
	edge := func() byte {
		return []byte{0, 1, 2, 3, 4, 7, 8, 9, 0x35, 0x36, 0x37, 0xfe, 0xff}[e.Choose("wl.edge", 13)]
	}
	switch m := e.Choose("wl.mut", 11); m {
	case 0: // truncate (header length field adjusted to the truncated size: the body is short)
		if len(b) > 6 {
			b = b[:6+e.Choose("wl.trunc", len(b)-6)]
			fixLen()
		}
		f.desc += "/truncated"
	case 1: // truncate without fixing the header
		if len(b) > 1 {
			b = b[:e.Choose("wl.trunc2", len(b))]
		}
		f.desc += "/cut"
	case 2: // rewrite a length octet near the start of the body
		if len(b) > 6 {
			off := 6 + e.Choose("wl.off", minInt(len(b)-6, 12))
			b[off] = edge()
		}
		f.desc += "/lenoctet"
	case 3: // rewrite an arbitrary octet to an edge value
		if len(b) > 6 {
			b[6+e.Choose("wl.off2", len(b)-6)] = edge()
		}
		f.desc += "/octet"
	case 4: // random bytes under a valid header
		n := e.Choose("wl.rndlen", 64)
		b = append(b[:6:6], g.bytes("wl.rnd", n)...)
		fixLen()
		f.desc += "/random-body"
	case 5: // description blocks with odd lengths
		svc := []uint16{svcSearchRes, svcDescrRes}[e.Choose("wl.dsvc", 2)]
		var body []byte
		if svc == svcSearchRes {
			body = append(body, mkHPAI(1, [4]byte{10, 0, 0, 1}, 3671)...)
		}
		for i := 1 + e.Choose("wl.ndib", 3); i > 0; i-- {
			l := edge()
			ty := []byte{1, 2, 3, 4, 5, 0xfe, 0x77}[e.Choose("wl.dibty", 7)]
			body = append(body, l, ty)
			body = append(body, g.bytes("wl.dibb", e.Choose("wl.diblen", 60))...)
		}
		b = mkFrame(svc, body)
		f.desc = "dib-odd-lengths"
	case 6: // cEMI with an additional-info or TPDU length that disagrees with the bytes present
		c := []byte{0x29, edge()}
		c = append(c, g.bytes("wl.cb", e.Choose("wl.clen", 20))...)
		if e.Choose("wl.cwrap", 2) == 0 {
			b = mkFrame(svcRoutingInd, c)
		} else {
			b = mkFrame(svcTunnelReq, append([]byte{4, 1, 0, 0}, c...))
		}
		f.desc = "cemi-odd-lengths"
	case 7: // header damage
		switch e.Choose("wl.hdr", 4) {
		case 0:
			b[0] = edge()
		case 1:
			b[1] = edge()
		case 2:
			if len(b) >= 6 {
				b[4], b[5] = 0, edge()
			}
		case 3:
			if len(b) >= 6 {
				b[4], b[5] = edge(), edge()
			}
		}
		f.desc += "/header"
	case 9: // an L_Data frame that ends before its own length octets say it does, under a header and a
		// connection header that are in order: ill formed by construction, whatever a decoder thinks
		app := g.bytes("wl.illapp", 1+e.Choose("wl.illapplen", 14))
		app[0] &= 0x3f
		var info []byte
		if e.Choose("wl.illinfo", 3) == 0 {
			info = g.bytes("wl.illinfob", 1+e.Choose("wl.illinfolen", 12))
		}
		code := []byte{0x11, 0x2e, 0x29, 0x29}[e.Choose("wl.illcode", 4)]
		c := mkLData(code, 0xbc, 0xe0, 0x1101, uint16(e.Choose("wl.illdst", 65536)), 2, app, info)
		why := ""
		if e.Choose("wl.illlong", 3) == 0 {
			// ... or goes on for 256 or 512 octets more than they say (the same number modulo 256)
			extra := 256 * (1 + e.Choose("wl.illextra", 2))
			l := []int{0, 0, 1, 5, 14}[e.Choose("wl.illannounced", 5)]
			c = c[:len(c)-len(app)-2]    // up to, not including, the length octet
			c = append(c, byte(l), 0x00) // length octet, TPCI of a data unit
			tail := g.bytes("wl.illtail", l+extra)
			tail[0] &= 0x3f
			c = append(c, tail...)
			why = fmt.Sprintf("L_Data frame with %d octets more than its length octet announces", extra)
		} else {
			cut := 1 + e.Choose("wl.illcut", len(c)-1) // 1 .. len(c)-1 octets missing at the end
			c = c[:len(c)-cut]
			why = fmt.Sprintf("L_Data frame cut short by %d octets", cut)
		}
		if router || e.Choose("wl.illwrap", 2) == 0 {
			b = mkFrame(svcRoutingInd, c)
		} else {
			b = mkFrame(svcTunnelReq, append([]byte{4, uint8(e.Choose("wl.ch", 256)), uint8(e.Choose("wl.seq", 256)), 0}, c...))
		}
		g.illFormed[string(b)] = why
		f.desc = "ldata-cut-short"
	case 10: // a service-families block whose length octet is at the top of its range, with plenty behind it
		name := make([]byte, 30)
		copy(name, "big")
		dev := append([]byte{54, 1, 0x02, 0, 0x11, 0x01, 0, 0, 1, 2, 3, 4, 5, 6, 224, 0, 23, 12, 1, 2, 3, 4, 5, 6}, name...)
		fam := []byte{[]byte{0xfe, 0xff, 0xfd, 0xfc}[e.Choose("wl.bigfamlen", 4)], 2}
		fam = append(fam, g.bytes("wl.bigfamb", 250+e.Choose("wl.bigfamn", 200))...)
		if e.Choose("wl.bigfamsvc", 2) == 0 {
			b = mkFrame(svcSearchRes, append(append(mkHPAI(1, [4]byte{10, 0, 0, 9}, 3671), dev...), fam...))
		} else {
			b = mkFrame(svcDescrRes, append(dev, fam...))
		}
		f.desc = "families-block-at-the-limit"
	case 8: // short connect response and friends: 6-byte header + 0..3 bytes
		svc := []uint16{svcConnRes, svcConnStateRes, svcTunnelRes, svcTunnelReq, svcDescrRes, svcSearchRes, svcRoutingInd, svcRoutingBusy}[e.Choose("wl.ssvc", 8)]
		b = mkFrame(svc, g.bytes("wl.sb", e.Choose("wl.slen", 4)))
		f.desc = "short-body"
	}
	f.raw = b
	return f
}

func minInt(a, b int) int {
	if a < b {
		return a
	}
	return b
}

// ---------------------------------------------------------------------------------------

type sockRun struct {
	e           *Env
	sendWant    map[string]int // encodings of the values handed to Send -> how often
	wf          map[string]string
	ill         map[string]string
	c           sockCfg
	sock        knxnet.Socket
	got         []knxnet.Service
	gotAt       []Stamp
	inEnd       *Stamp
	sent        []genFrame // what the peer transmitted, in order
	sendErrs    int
	sendOK      int
	closeAt     Stamp  // taken right before the harness calls Close
	stalledPeer bool   // tcp: the peer stops reading for seconds at a time
	peerGot     []byte // tcp: every octet the peer has read from the client
	peerEnd     string // tcp: how the peer's reading ended ("": it has not)
	closed      bool
	endAt       Stamp // the instant the end (Close, read error) was triggered
	pending     bool  // the consumer was not reading when the end came
}

func runSocket(e *Env, hostile bool) {
	var c sockCfg
	c.Hostile = hostile
	c.Kind = []string{"udp", "tcp", "router"}[e.Choose("cfg.kind", 3)]
	c.Frames = 1 + e.Choose("cfg.frames", 50)
	if hostile {
		c.Frames = 1 + e.Choose("cfg.frames60", 60)
	}
	c.Senders = e.Choose("cfg.senders", 9)
	c.Sends = 1 + e.Choose("cfg.sends", 6)
	c.Consumer = []string{"ready", "slow"}[e.Choose("cfg.consumer", 2)]
	c.End = []string{"close", "close", "peer-eof", "peer-rst", "read-error", "close-pending", "close-pending"}[e.Choose("cfg.end", 7)]
	c.Dribble = []string{"whole", "bytes", "random", "header-split", "coalesce"}[e.Choose("cfg.dribble", 5)]
	c.TCPCut = e.Choose("cfg.tcpcut", 2) == 1
	c.Sticky = []int{600, 0, 850}[e.Choose("cfg.sticky", 3)]
	c.Gap = e.PickDur("cfg.gap", 0, 100*time.Microsecond, 2*time.Millisecond)
	if c.Kind != "tcp" && (c.End == "peer-eof" || c.End == "peer-rst") {
		c.End = "close"
	}
	if hostile && c.End == "close-pending" {
		c.End = "close"
	}
	if c.Kind == "tcp" && c.End == "read-error" {
		c.End = "peer-rst"
	}
	e.Cfg("%s", c.String())
	e.S.SetConfig(func(sc *simrt.Config) { sc.StickyPermille = c.Sticky; sc.MaxSteps = 60000 })
	e.F.SetTCPCut(c.TCPCut)
	lnk := simnet.Link{DelayMin: 100 * time.Microsecond, DelayMax: 100 * time.Microsecond}
	for _, a := range []string{gwIP, peerIP, clientIP} {
		for _, b := range []string{gwIP, peerIP, clientIP, groupIP} {
			e.F.SetLink(a, b, lnk)
		}
	}
	if !hostile && c.Kind != "tcp" && c.Senders > 0 && e.Choose("cfg.werr16", 4) == 0 {
		// some of the client's own writes fail (no buffer space): that Send reports it, and nobody
		// else is the worse for it
		up := lnk
		up.WriteErrPermille = []int{50, 150, 400}[e.Choose("cfg.werr16p", 3)]
		for _, b := range []string{gwIP, peerIP, groupIP} {
			e.F.SetLink(clientIP, b, up)
		}
	}
	r := &sockRun{e: e, c: c, sendWant: map[string]int{}}
	gen := &frameGen{e: e, wellFormed: map[string]string{}, illFormed: map[string]string{}}
	r.wf = gen.wellFormed
	r.ill = gen.illFormed
	s := e.S

	var udpPeer *simnet.UDPConn
	var tcpPeer *simnet.TCPConn
	var clientAddr *net.UDPAddr
	groupAddr := &net.UDPAddr{IP: net.ParseIP(groupIP).To4(), Port: gwPort}
	var err error
	switch c.Kind {
	case "udp":
		udpPeer = e.F.ListenUDPOn(gwIP, gwPort)
		s.Spawn("peer-rx", func() { drainUDP(udpPeer) })
		var ts *knxnet.TunnelSocket
		ts, err = knxnet.DialTunnelUDP(fmt.Sprintf("%s:%d", gwIP, gwPort))
		if err == nil {
			r.sock = ts
			clientAddr = ts.LocalAddr().(*net.UDPAddr)
		}
	case "tcp":
		lis := e.F.ListenTCPOn(gwIP, gwPort)
		var ts *knxnet.TunnelSocket
		ts, err = knxnet.DialTunnelTCP(fmt.Sprintf("%s:%d", gwIP, gwPort))
		if err == nil {
			r.sock = ts
			tcpPeer, _ = lis.Accept()
			// Some peers stop reading for a while: the client's writes then fill the window and
			// block (a write may go out in pieces, but a Send never leaves half a frame behind).
			stallPeer := !hostile && e.Choose("cfg.tcpstall", 4) == 0
			r.stalledPeer = stallPeer
			if stallPeer {
				tcpPeer.Peer().SndBuf = []int{64, 600, 4096}[e.Choose("cfg.tcpwindow", 3)]
				e.Fault("tcp-peer-stops-reading")
			}
			s.Spawn("peer-rx", func() {
				buf := make([]byte, 4096)
				if stallPeer {
					s.SleepFor(time.Duration(1+e.Choose("wl.tcpstallfor", 8)) * time.Second)
				}
				for {
					n, err := tcpPeer.Read(buf)
					r.peerGot = append(r.peerGot, buf[:n]...)
					if err != nil {
						r.peerEnd = err.Error()
						return
					}
					if stallPeer && e.Choose("wl.tcpstallagain", 20) == 0 {
						s.SleepFor(time.Duration(1+e.Choose("wl.tcpstallfor", 8)) * time.Second)
					}
				}
			})
		}
	case "router":
		udpPeer = e.F.ListenUDPOn(peerIP, gwPort)
		udpPeer.JoinGroupIP(groupAddr.IP)
		s.Spawn("peer-rx", func() { drainUDP(udpPeer) })
		var rs *knxnet.RouterSocket
		rs, err = knxnet.ListenRouterOnInterface(nil, fmt.Sprintf("%s:%d", groupIP, gwPort), false)
		if err == nil {
			r.sock = rs
		}
	}
	if err != nil {
		e.HarnessError("cannot create %s socket: %v", c.Kind, err)
		return
	}
	// consumer
	consumerDone := false
	paused := false
	away, awayDone, workloadOver := false, false, false
	s.Spawn("consumer", func() {
		in := r.sock.Inbound()
		for {
			if paused {
				s.WaitUntil("consumer-paused", func() bool { return !paused })
			}
			if c.Consumer == "slow" && e.Choose("wl.cslow", 3) == 0 {
				s.SleepFor(time.Duration(1+e.Choose("wl.cslowamt", 20)) * 100 * time.Microsecond)
			}
			if c.Consumer == "slow" && !hostile && !awayDone && !workloadOver && e.Choose("wl.clong", 40) == 0 {
				// an application that stays away for seconds (once per run): the frame in the
				// receiver's hand waits
				awayDone = true
				e.Fault("consumer-away-for-seconds")
				away = true
				s.SleepFor(time.Duration(1100+e.Choose("wl.clongamt", 2000)) * time.Millisecond)
				away = false
			}
			v, ok := simrt.Recv2("consumer", in)
			if !ok {
				st := e.Stamp()
				r.inEnd = &st
				consumerDone = true
				return
			}
			r.got = append(r.got, v)
			r.gotAt = append(r.gotAt, e.Stamp())
		}
	})
	// concurrent senders
	sendersLeft := c.Senders
	for k := 0; k < c.Senders; k++ {
		s.Spawn(fmt.Sprintf("sender%d", k), func() {
			for i := 0; i < c.Sends; i++ {
				f := gen.valid(c.Kind == "router")
				svc, _, derr, p := refDecode(f.raw)
				pk, isPk := svc.(knxnet.ServicePackable)
				if derr != nil || p != "" || !isPk {
					continue
				}
				switch pk.(type) {
				case *knxnet.SearchRes, *knxnet.DescriptionRes:
					continue // the library cannot encode these (its Pack panics): not sendable
				}
				// what has to appear on the wire: the same value packed into a fresh, zeroed buffer
				r.sendWant[string(knxnet.AllocAndPack(pk))]++
				if err := r.sock.Send(pk); err != nil {
					r.sendErrs++
				} else {
					r.sendOK++
				}
				simrt.Yield("sender")
			}
			sendersLeft--
		})
	}
	// the peer's transmission
	peerDone := false
	badHeader := false // tcp: a frame with a malformed header was put on the stream
	s.Spawn("peer", func() {
		defer func() { peerDone = true }()
		var stream []byte
		// systematic mode (a fifth of the hostile runs): every truncation length of one valid
		// frame in a window of up to 60 consecutive lengths, with and without a corrected header
		var sysBase []byte
		sysFrom, sysFix := 0, false
		if hostile && c.Kind != "tcp" && e.Choose("cfg.systematic", 5) == 0 {
			sysBase = gen.valid(c.Kind == "router").raw
			if len(sysBase) > 60 {
				sysFrom = e.Choose("wl.sysfrom", len(sysBase)-59)
			}
			sysFix = e.Choose("wl.sysfix", 2) == 1
			e.Probe("systematic-truncation-run")
		}
		for i := 0; i < c.Frames; i++ {
			var f genFrame
			switch {
			case sysBase != nil:
				l := sysFrom + i
				if l > len(sysBase) {
					l = len(sysBase)
				}
				b := append([]byte(nil), sysBase[:l]...)
				if sysFix && len(b) >= 6 {
					b[4], b[5] = byte(len(b)>>8), byte(len(b))
				}
				f = genFrame{raw: b, desc: fmt.Sprintf("truncated-to-%d", l)}
			case !hostile && c.Kind == "tcp" && e.Choose("wl.jumbo", 12) == 0:
				// up to the largest encodable frame (the total length field has 16 bits)
				n := []int{1010, 1024, 4080, 4090, 4096, 4097, 8192, 20000, 65000, 65525}[e.Choose("wl.jumbolen", 10)]
				b := cemi.LBusmonInd(gen.bytes("wl.jumbob", 16))
				b = append(b, make([]byte, n-16)...)
				for j := 16; j < len(b); j += 97 {
					b[j] = byte(j)
				}
				f = genFrame{raw: knxnet.AllocAndPack(&knxnet.RoutingInd{Payload: &b}), desc: fmt.Sprintf("jumbo-%d", n)}
				e.Probe("tcp-jumbo-frame")
			case !hostile:
				f = gen.valid(c.Kind == "router")
			case e.Choose("wl.hostile", 3) == 0:
				f = gen.valid(c.Kind == "router")
			default:
				f = gen.hostile(c.Kind == "router")
			}
			if hostile && i > 0 && e.Choose("wl.stalepair", 4) == 0 {
				// long-then-short: the short one is decoded as a prefix of a buffer that still
				// holds the long one's bytes
				long := mkFrame(svcRoutingInd, mkLData(0x29, 0xbc, 0xe0, 0x1101, 0x0a03, 2, gen.bytes("wl.longb", 200), gen.bytes("wl.longi", 40)))
				r.sent = append(r.sent, genFrame{raw: long, desc: "long"})
				r.transmit(c.Kind, udpPeer, clientAddr, groupAddr, &stream, long)
			}
			if c.Kind == "tcp" && hostile {
				if ok, _ := headerOK(f.raw); !ok {
					if badHeader || i < c.Frames-1 && e.Choose("wl.keephdr", 4) != 0 {
						// at most one malformed header per stream, mostly at the end
						f = gen.valid(false)
					} else {
						badHeader = true
					}
				}
			}
			if !hostile && c.Kind != "tcp" && e.Choose("wl.junk", 12) == 0 {
				// something that is no frame at all between two well-formed ones (an empty datagram, a
				// stray byte or two): the next frame must be surfaced all the same
				junk := genFrame{raw: gen.bytes("wl.junkb", e.Choose("wl.junklen", 4)), desc: "junk"}
				r.sent = append(r.sent, junk)
				r.transmit(c.Kind, udpPeer, clientAddr, groupAddr, &stream, junk.raw)
				e.Fault("junk-datagram")
			}
			r.sent = append(r.sent, f)
			r.transmit(c.Kind, udpPeer, clientAddr, groupAddr, &stream, f.raw)
			if c.Gap > 0 && e.Choose("wl.gap", 2) == 0 {
				s.SleepFor(c.Gap)
			}
		}
		// sentinel: a well-formed frame that must still get through
		sent := genFrame{raw: mkFrame(svcConnStateRes, []byte{0xaa, 0}), desc: "sentinel"}
		r.sent = append(r.sent, sent)
		r.transmit(c.Kind, udpPeer, clientAddr, groupAddr, &stream, sent.raw)
		if c.Kind == "tcp" {
			r.flushTCP(tcpPeer, stream)
		}
	})
	if !e.WaitDone("workload", 30*time.Second, func() bool { return peerDone && sendersLeft == 0 }) && sendersLeft > 0 && !r.stalledPeer {
		e.Violate("C16", "send-never-returned", "%d of %d sending goroutines are still inside Send 30 s after they started, with a peer that reads everything at once", sendersLeft, c.Senders)
	}
	workloadOver = true
	e.WaitDone("consumer-back", 5*time.Second, func() bool { return !away })
	s.SleepFor(50 * time.Millisecond) // everything in flight arrives and is consumed
	// the end
	r.endAt = e.Stamp()
	switch c.End {
	case "close":
		if c.Kind == "tcp" && !hostile && e.Choose("wl.lastwords", 3) == 0 {
			// a few last frames, and Close in the instant the last Send has returned: they are on
			// their way, and an orderly close lets them arrive
			for i := 1 + e.Choose("wl.lastwordsn", 3); i > 0; i-- {
				pk := &knxnet.ConnStateReq{Channel: uint8(200 + i), Control: gen.hostInfo()}
				r.sendWant[string(knxnet.AllocAndPack(pk))]++
				if err := r.sock.Send(pk); err != nil {
					r.sendErrs++
				} else {
					r.sendOK++
				}
			}
			e.Fault("close-right-after-send")
		}
		e.Call("close", 5*time.Second, func() { r.closeAt = e.Stamp(); r.sock.Close(); r.closed = true })
	case "close-pending":
		// the application stops reading, more frames arrive (one sits in the receiver's
		// hand-over), then the socket is closed; afterwards the application drains the channel
		paused = true
		r.pending = true
		var stream []byte
		for i := 0; i < 3; i++ {
			f := gen.valid(c.Kind == "router")
			r.sent = append(r.sent, f)
			r.transmit(c.Kind, udpPeer, clientAddr, groupAddr, &stream, f.raw)
		}
		if c.Kind == "tcp" {
			r.flushTCP(tcpPeer, stream)
		}
		s.SleepFor(5 * time.Millisecond)
		r.endAt = e.Stamp()
		e.Call("close", 5*time.Second, func() { r.closeAt = e.Stamp(); r.sock.Close(); r.closed = true })
		s.SleepFor(time.Millisecond)
		// the receiver must have ended although nobody took the frame it was holding
		for _, t := range e.S.LiveLibTasks() {
			e.Violate("C16", "receiver-alive-after-close:"+siteKey(t.SpawnSite), "Close returned while the application was not reading; the library goroutine spawned at %s is still alive (at %s)", t.SpawnSite, t.Site)
		}
		paused = false
	case "peer-eof":
		if !hostile && e.Choose("wl.eofmidframe", 2) == 0 {
			// the peer goes away in the middle of a frame: the part that arrived is no frame, the
			// receiver ends and Inbound is closed all the same
			f := gen.valid(false)
			if len(f.raw) > 7 {
				tcpPeer.Write(f.raw[:6+e.Choose("wl.eofcut", len(f.raw)-6)])
				e.Fault("tcp-peer-closes-inside-frame")
				s.SleepFor(time.Millisecond)
			}
		}
		tcpPeer.Close()
	case "peer-rst":
		tcpPeer.Reset()
	case "read-error":
		if u, ok := findLibUDP(e); ok {
			u.InjectReadError(fmt.Errorf("connection refused"))
		}
	}
	e.WaitDone("consumer-end", 5*time.Second, func() bool { return consumerDone })
	if !r.closed {
		e.Call("close", 5*time.Second, func() { r.closeAt = e.Stamp(); r.sock.Close(); r.closed = true })
	}
	s.SleepFor(10 * time.Millisecond)
	if c.Kind == "tcp" && !hostile && (c.End == "close" || c.End == "close-pending") {
		e.WaitDone("peer-read-all", 20*time.Second, func() bool { return r.peerEnd != "" })
	}
	checkSocket(r, badHeader)
}

func drainUDP(c *simnet.UDPConn) {
	buf := make([]byte, 4096)
	for {
		if _, _, err := c.ReadFromUDP(buf); err != nil {
			return
		}
	}
}

func findLibUDP(e *Env) (*simnet.UDPConn, bool) {
	for _, c := range e.F.LibUDPConns() {
		return c, true
	}
	return nil, false
}

func headerOK(b []byte) (bool, int) {
	if len(b) < 6 || b[0] != 6 || b[1] != 0x10 {
		return false, 0
	}
	tl := int(b[4])<<8 | int(b[5])
	return tl >= 6 && tl == len(b), tl
}

func (r *sockRun) transmit(kind string, peer *simnet.UDPConn, client, group *net.UDPAddr, stream *[]byte, raw []byte) {
	switch kind {
	case "udp":
		peer.WriteToUDP(raw, client)
	case "router":
		peer.WriteToUDP(raw, group)
	case "tcp":
		*stream = append(*stream, raw...)
	}
}

// flushTCP writes the concatenated frames as segments cut by the run's dribble policy.
func (r *sockRun) flushTCP(peer *simnet.TCPConn, stream []byte) {
	e := r.e
	off := 0
	for off < len(stream) {
		n := len(stream) - off
		dribble := r.c.Dribble
		if len(stream) > 6000 && (dribble == "bytes" || dribble == "header-split") {
			dribble = "random" // a jumbo frame byte by byte would cost tens of thousands of steps for nothing
		}
		switch dribble {
		case "bytes":
			n = 1
		case "random":
			n = 1 + e.Choose("wl.seg", minInt(n, 300))
			if len(stream) > 6000 {
				n = 1 + e.Choose("wl.segbig", minInt(len(stream)-off, 3000))
			}
		case "header-split":
			n = 1 + e.Choose("wl.segh", minInt(n, 7))
		case "coalesce":
			n = minInt(n, 200+e.Choose("wl.segc", 2000))
		}
		peer.Write(stream[off : off+n])
		off += n
		if e.Choose("wl.seggap", 3) == 0 {
			e.S.SleepFor(time.Duration(e.Choose("wl.seggapamt", 5)) * 100 * time.Microsecond)
		}
	}
}

// ---------------------------------------------------------------------------------------

func checkSocket(r *sockRun, badHeader bool) {
	e, c := r.e, r.c
	prop := "C16"
	if c.Hostile {
		prop = "C01"
	}
	// what the receiver should have surfaced
	var want []knxnet.Service
	var wantDesc []string
	addWant := func(raw []byte, desc string) {
		if len(raw) == 0 {
			return
		}
		svc, n, err, p := refDecode(raw)
		if p != "" {
			e.Violate("C01", "decoder-panic:"+panicSite(p), "decoding %d bytes %x (%s) panicked: %s", len(raw), clipBytes(raw), desc, p)
			return
		}
		if err != nil {
			if k, ok := r.wf[string(raw)]; ok {
				// built from a valid value by the library's own encoder (or by hand to the letter of
				// the specification): the frame is well formed whatever the decoder says
				e.Violate(prop, "well-formed-frame-rejected", "a well-formed %s frame (%d bytes %x, %s) is turned down by the decoder: %v", k, len(raw), clipBytes(raw), desc, err)
			}
			return
		}
		if why, ok := r.ill[string(raw)]; ok {
			e.Violate("C01", "malformed-frame-accepted", "an ill-formed frame (%s; %d bytes %x) is decoded without an error, to %s", why, len(raw), clipBytes(raw), dump(svc))
		}
		if int(n) > len(raw) {
			e.Violate("C01", "consumed-exceeds-input:"+fmt.Sprintf("%T", svc), "decoding %d bytes %x (%s) succeeded with a consumed length of %d", len(raw), clipBytes(raw), desc, n)
		}
		want = append(want, svc)
		wantDesc = append(wantDesc, desc)
	}
	endedEarly := false
	switch c.Kind {
	case "tcp":
		// frame the stream the way the protocol dictates
		var stream []byte
		for _, f := range r.sent {
			stream = append(stream, f.raw...)
		}
		for len(stream) > 0 {
			if len(stream) < 6 || stream[0] != 6 || stream[1] != 0x10 {
				endedEarly = true
				break
			}
			tl := int(stream[4])<<8 | int(stream[5])
			if tl < 6 || tl > len(stream) {
				endedEarly = true
				break
			}
			addWant(stream[:tl], "tcp-frame")
			stream = stream[tl:]
		}
	default:
		// every datagram that arrived at the library's socket before it was closed (the fabric's
		// buffer of 256 datagrams never overflows at these volumes)
		for _, rec := range e.F.Records() {
			// (a datagram that overflowed a receive buffer which the library itself had shrunk counts as arrived)
			if (rec.Kind == "arrive" || rec.Kind == "overflow" && rec.Err == "SetReadBuffer") && (strings.HasPrefix(rec.Sock, "udp:"+clientIP) || strings.HasPrefix(rec.Sock, routerLbl)) {
				if r.endAt.Seq != 0 && rec.Seq > r.endAt.Seq {
					continue
				}
				addWant(rec.Data, "datagram")
			}
		}
	}
	// compare
	n := len(r.got)
	if len(want) < n {
		n = len(want)
	}
	for i := 0; i < n; i++ {
		if !reflect.DeepEqual(r.got[i], want[i]) {
			e.Violate(prop, "receiver-value-differs", "frame %d (%s): Inbound yielded %s, decoding the same bytes on their own yields %s", i, wantDesc[i], dump(r.got[i]), dump(want[i]))
			break
		}
	}
	if len(r.got) > len(want) && !endedEarly {
		e.Violate(prop, "receiver-extra-frame", "Inbound yielded %d frames, only %d well-formed frames were transmitted; extra: %s", len(r.got), len(want), dump(r.got[len(want)]))
	}
	if len(r.got) < len(want) && r.pending && len(want)-len(r.got) <= 3 {
		// frames that were still on their way to the application when it closed the socket
	} else if len(r.got) < len(want) {
		// frames may be missing only if the end came first (close racing with reception is
		// avoided by the settle pause, so everything transmitted should be there)
		if !(c.Kind == "tcp" && endedEarly) {
			e.Violate(prop, "receiver-lost-frame", "%d well-formed frames were transmitted (%d read), Inbound yielded %d; first missing: #%d %s", len(want), len(want), len(r.got), len(r.got), dump(want[len(r.got)]))
		}
	}
	// sends: one write per Send, each a complete frame
	writes := 0
	for _, rec := range e.F.Records() {
		lib := strings.HasPrefix(rec.Sock, "udp:"+clientIP) || strings.HasPrefix(rec.Sock, routerLbl) || strings.HasPrefix(rec.Sock, "tcp:"+clientIP)
		if !lib || (rec.Kind != "send" && rec.Kind != "tcpwrite") {
			continue
		}
		if ok, _ := headerOK(rec.Data); !ok && rec.Kind == "tcpwrite" && r.closeAt.Seq != 0 && rec.Seq > r.closeAt.Seq {
			// a Send that was still waiting for room in the window when the application closed the
			// socket: it fails, and what it had got rid of by then is all there is
			e.Probe("send-cut-by-close")
			continue
		}
		writes++
		if r.sendWant[string(rec.Data)] > 0 {
			r.sendWant[string(rec.Data)]--
		} else if ok, _ := headerOK(rec.Data); ok {
			e.Violate("C16", "send-bytes-differ", "a Send put %d bytes on the network that are not the encoding of any value handed to Send (stale or foreign octets in the frame): %x", len(rec.Data), clipBytes(rec.Data))
		}
		if ok, _ := headerOK(rec.Data); !ok {
			e.Violate("C16", "send-not-one-frame", "a Send handed %d bytes to the network that are not one complete frame: %x", len(rec.Data), clipBytes(rec.Data))
		}
	}
	if writes != r.sendOK {
		e.Violate("C16", "send-write-count", "%d successful Sends produced %d writes", r.sendOK, writes)
	}
	if c.Kind == "tcp" && !c.Hostile && r.peerEnd != "" && (c.End == "close" || c.End == "close-pending") {
		// what the Sends handed to the network is what the peer gets to read, all of it, before the
		// connection ends (the client closed it: an orderly close delivers what was sent before)
		var wrote []byte
		for _, rec := range e.F.Records() {
			if rec.Kind == "tcpwrite" && strings.HasPrefix(rec.Sock, "tcp:"+clientIP) {
				wrote = append(wrote, rec.Data...)
			}
		}
		if string(wrote) != string(r.peerGot) {
			d := 0
			for d < len(wrote) && d < len(r.peerGot) && wrote[d] == r.peerGot[d] {
				d++
			}
			e.Violate("C16", "sent-frames-not-received", "the Sends wrote %d octets to the connection before Close; the peer read %d octets and then %q (first difference at offset %d: wrote %x, read %x)", len(wrote), len(r.peerGot), r.peerEnd, d, clipBytes(wrote[d:]), clipBytes(r.peerGot[d:]))
		}
		e.Probe("tcp-peer-read-compared")
	}
	// the end
	if r.inEnd == nil {
		e.Violate(prop, "inbound-open-after-end", "the socket ended (%s) but its Inbound channel was never closed", c.End)
	}
	for _, t := range e.S.LiveLibTasks() {
		e.Violate(prop, "goroutine-leak:"+siteKey(t.SpawnSite), "library goroutine spawned at %s still alive (at %s) after the socket ended (%s)", t.SpawnSite, t.Site, c.End)
	}
	for _, l := range e.F.OpenSockets() {
		if strings.HasPrefix(l, "udp:"+clientIP) || strings.HasPrefix(l, "tcp:"+clientIP) || strings.HasPrefix(l, routerLbl) {
			e.Violate("C16", "socket-open-after-close", "socket %s still open after Close", l)
		}
	}
	if endedEarly {
		e.Probe("tcp-malformed-header")
	}
	if len(want) > 0 {
		e.Probe("frames-compared")
	}
}

func clipBytes(b []byte) []byte {
	if len(b) > 80 {
		return b[:80]
	}
	return b
}

// scrub removes addresses from a panic message.
func scrub(m string) string {
	var b strings.Builder
	for i := 0; i < len(m); i++ {
		if m[i] == '0' && i+1 < len(m) && m[i+1] == 'x' {
			j := i + 2
			for j < len(m) && strings.IndexByte("0123456789abcdef", m[j]) >= 0 {
				j++
			}
			if j-i > 6 {
				b.WriteString("0x…")
				i = j - 1
				continue
			}
		}
		b.WriteByte(m[i])
	}
	return b.String()
}
