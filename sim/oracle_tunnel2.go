package sim

import (
	"fmt"
	"strings"
	"time"
)

// ---------------------------------------------------------------------------------------
// C04 (+ C17 for the tunnel): reference model = one expected counter per epoch, driven by the
// stream of frames the client's socket read (the receive loop consumes them in that order).

type expAck struct {
	ch, seq  uint8
	optional bool
	at       Stamp  // read stamp of the request
	by       uint64 // the acknowledgement is on the wire before this event: the socket reads frame
	// i+2 only after the receive loop has taken frame i+1, i.e. after it finished with frame i
}

func checkC04(v *tunView, m *connModel) {
	r := v.r
	e := r.e
	c := r.c
	if m.giveUp {
		e.Probe("conn-model-gave-up")
		e.Probe("conn-model-gave-up:" + m.giveUpWhy)
		return
	}
	var expAcks []expAck
	accepted := map[int]int{}   // id -> how many times the model accepted it (must be delivered)
	mayDeliver := map[int]int{} // ids that may (but need not) be delivered, and how often
	var acceptOrder []int
	var expected []uint8 = make([]uint8, len(m.epochs))
	ackBy := func(i int) uint64 {
		// (only frames that the socket layer decodes are handed to the loop and wait for it; something
		// it drops - an unknown service, a body that does not add up - does not hold the reader back)
		n := 0
		for j := i + 1; j < len(v.rx); j++ {
			f := v.rx[j].F
			if !f.OK {
				continue
			}
			switch f.Svc {
			case svcConnRes, svcConnStateRes, svcDiscReq, svcDiscRes, svcTunnelReq, svcTunnelRes:
				if n++; n == 2 {
					return v.rx[j].At.Seq
				}
			}
		}
		return ^uint64(0)
	}
	for i, x := range v.rx {
		if !x.F.OK || x.F.Svc != svcTunnelReq {
			continue
		}
		id := cemiID(x.F.CEMI)
		mode := m.mode[i]
		switch {
		case mode >= 0:
			ep := m.epochs[mode]
			if x.F.Channel != ep.Channel {
				continue // foreign channel: nothing
			}
			if c.TCP {
				// no sequence numbers, no acknowledgements: every request on the channel is delivered
				accepted[id]++
				acceptOrder = append(acceptOrder, id)
				continue
			}
			exp := expected[mode]
			switch x.F.Seq {
			case exp:
				expected[mode]++
				if exp == 255 {
					e.Probe("inbound-seq-wrap")
				}
				accepted[id]++
				acceptOrder = append(acceptOrder, id)
				expAcks = append(expAcks, expAck{ch: ep.Channel, seq: x.F.Seq, at: x.At, by: ackBy(i)})
			case exp - 1:
				e.Probe("duplicate-request-reacknowledged")
				expAcks = append(expAcks, expAck{ch: ep.Channel, seq: x.F.Seq, at: x.At, by: ackBy(i)})
			default:
				e.Probe("out-of-sequence-request")
			}
		case mode == -2:
			// consumption uncertain (last frame before an asynchronous transition, or after Close
			// was invoked): if it was processed it was processed by the rules, which the
			// acknowledgement matcher checks; delivery is allowed, not required.
			mayDeliver[id]++
			expAcks = append(expAcks, expAck{ch: x.F.Channel, seq: x.F.Seq, optional: true, at: x.At, by: ackBy(i)})
		}
	}
	// acknowledgements the client emitted, in order
	type ackTx struct {
		at      Stamp
		ch, seq uint8
		st      uint8
	}
	var acks []ackTx
	for _, x := range v.tx {
		if x.F.OK && x.F.Svc == svcTunnelRes {
			acks = append(acks, ackTx{x.At, x.F.Channel, x.F.Seq, x.F.Status})
		}
	}
	if c.TCP {
		if len(acks) > 0 {
			e.Violate("C04", "tcp-acknowledged", "a TCP tunnel acknowledged a tunnelling request: %d acknowledgements on the stream", len(acks))
		}
	} else {
		j := 0
		for _, a := range acks {
			matched := false
			for j < len(expAcks) {
				x := expAcks[j]
				if x.ch == a.ch && x.seq == a.seq && a.at.Seq > x.at.Seq && a.at.Seq < x.by {
					matched = true
					j++
					break
				}
				if x.optional {
					j++
					continue
				}
				break
			}
			if a.st != 0 {
				e.Violate("C04", "ack-status-not-ok", "client acknowledged seq %d on channel %d with status %#x", a.seq, a.ch, a.st)
			}
			if !matched {
				if j < len(expAcks) {
					e.Violate("C04", "wrong-ack", "client emitted TunnelRes{ch=%d seq=%d} at %v; the reference model expects the next acknowledgement to be {ch=%d seq=%d} (for the request read at %v)", a.ch, a.seq, a.at.T, expAcks[j].ch, expAcks[j].seq, expAcks[j].at.T)
				} else {
					e.Violate("C04", "unexpected-ack", "client emitted TunnelRes{ch=%d seq=%d} at %v for which the reference model has no request to acknowledge (foreign channel, out of sequence, or already acknowledged)", a.ch, a.seq, a.at.T)
				}
				break
			}
		}
		if j <= len(expAcks) {
			for ; j < len(expAcks); j++ {
				if !expAcks[j].optional {
					e.Violate("C04", "missing-ack", "request {ch=%d seq=%d} read at %v was in sequence (or a repetition of the previous one) but was never acknowledged", expAcks[j].ch, expAcks[j].seq, expAcks[j].at.T)
					break
				}
			}
		}
	}
	// deliveries
	seen := map[int]int{}
	var delivOrder []int
	for _, d := range r.h.Deliv {
		if d.ID < 0 {
			e.Violate("C04", "unknown-delivery", "Inbound yielded a message no peer sent: %s", d.Msg)
			continue
		}
		seen[d.ID]++
		if accepted[d.ID] == 0 && mayDeliver[d.ID] == 0 {
			e.Violate("C04", "delivered-not-accepted", "telegram id=%d was delivered on Inbound although it was not acceptable (foreign channel, out of sequence or a repetition)", d.ID)
		}
		if seen[d.ID] > 1 && seen[d.ID] > accepted[d.ID]+mayDeliver[d.ID] {
			e.Violate("C04", "delivered-twice", "telegram id=%d was delivered %d times on Inbound", d.ID, seen[d.ID])
		}
		if accepted[d.ID] > 0 {
			delivOrder = append(delivOrder, d.ID)
		}
	}
	// no accepted telegram is lost while the tunnel is open and the application reads
	open := m.term == nil && !m.between && (m.closeInv == nil || m.closeInv.Seq > r.h.Settled.Seq)
	if open && c.Reader != "absent" {
		for _, id := range acceptOrder {
			if seen[id] < accepted[id] {
				e.Violate("C04", "accepted-not-delivered", "telegram id=%d was accepted (in sequence, acknowledged) but never reached Inbound although the tunnel stayed open and the application kept reading", id)
				break
			}
		}
		// C17: order of delivery = order of acceptance
		if len(delivOrder) == len(acceptOrder) {
			for i := range delivOrder {
				if delivOrder[i] != acceptOrder[i] {
					e.Violate("C17", "tunnel-inbound-reordered", "Inbound yielded telegram id=%d at position %d where id=%d was accepted at that position (accepted order %v, delivered order %v)", delivOrder[i], i, acceptOrder[i], clip(acceptOrder, i), clip(delivOrder, i))
					break
				}
			}
		}
	}
	if len(acceptOrder) >= 2 {
		e.Probe("inbound-burst>=2")
	}
}

func clip(a []int, i int) []int {
	lo, hi := i-2, i+4
	if lo < 0 {
		lo = 0
	}
	if hi > len(a) {
		hi = len(a)
	}
	return a[lo:hi]
}

// ---------------------------------------------------------------------------------------
// C05: exactly once, in order, across the lossy link (rule-following gateway only).

func checkC05(v *tunView, m *connModel) {
	r := v.r
	e := r.e
	c := r.c
	if c.TCP || c.Adversary > 0 {
		return // the statement assumes a gateway and network that follow the rules
	}
	g := r.gw
	bus := map[int]int{}
	busPos := map[int]int{}
	for i, b := range g.Bus {
		bus[b.ID]++
		if bus[b.ID] == 1 {
			busPos[b.ID] = i
		}
		if b.ID >= 0 && b.Raw != nil && string(b.Raw) != string(idReqCEMI(b.ID)) {
			e.Violate("C05", "bus-content-differs", "the telegram the gateway put on the bus for id=%d is %x; the telegram handed to Send is %x", b.ID, b.Raw, idReqCEMI(b.ID))
		}
		if bus[b.ID] == 2 {
			e.Violate("C05", "bus-duplicate", "telegram id=%d was put on the bus twice (seq %d on channel %d at %v)", b.ID, b.Seq, b.Channel, b.At.T)
		}
	}
	byRet := append([]*SendCall(nil), r.h.Sends...)
	// successful Sends in completion order
	var oks []*SendCall
	for _, s := range byRet {
		if s.Done && s.OK {
			oks = append(oks, s)
		}
	}
	for i := 0; i < len(oks); i++ {
		for j := i + 1; j < len(oks); j++ {
			if oks[j].Ret.Seq < oks[i].Ret.Seq {
				oks[i], oks[j] = oks[j], oks[i]
			}
		}
	}
	// the (channel, sequence number) each Send's request carried
	type chseq struct {
		ch, seq uint8
		at      Stamp
	}
	reqOf := map[int]chseq{}
	for _, x := range v.tx {
		if x.F.OK && x.F.Svc == svcTunnelReq && !x.Werr {
			if id := cemiID(x.F.CEMI); id >= 0 {
				if _, ok := reqOf[id]; !ok {
					reqOf[id] = chseq{x.F.Channel, x.F.Seq, x.At}
				}
			}
		}
	}
	// onDeadChannel: the client sits on a connection the gateway does not have, because the connect
	// response it took for the answer to its connect request was a stray copy of an older one
	// (transmitted while the previous connection was still alive). Nothing in a connect response
	// ties it to a request, so the client cannot tell; from then on delayed copies of old
	// acknowledgements for that channel can satisfy its Sends.
	onDeadChannel := func(rq chseq) bool {
		for _, ep := range g.Epochs {
			if ep.Channel == rq.ch && ep.Start.Seq <= rq.at.Seq && (ep.End.Seq == 0 || ep.End.Seq > rq.at.Seq) {
				return false // the gateway has that connection
			}
		}
		for k, ep := range m.epochs {
			if k == 0 || ep.Start.Seq > rq.at.Seq || (ep.End.Seq != 0 && ep.End.Seq < rq.at.Seq) {
				continue
			}
			for _, y := range v.rx {
				if y.At.Seq == ep.Start.Seq && y.F.OK && y.F.Svc == svcConnRes {
					return y.Ref != 0 && y.Ref < m.epochs[k-1].End.Seq
				}
			}
		}
		return false
	}
	// failed Sends - for the known history only those that waited out their response timeout (or
	// could not write): a Send that gives up early for no reason is another matter
	failed := map[int]bool{}
	for _, s := range r.h.Sends {
		if s.Done && !s.OK {
			rq, sent := reqOf[s.ID]
			if !sent || s.Ret.T-rq.at.T >= c.T-v.eps || strings.Contains(s.Err, "write ") || strings.Contains(s.Err, "terminated") || strings.Contains(s.Err, "rejected") {
				failed[s.ID] = true
			}
		}
	}
	last := -1
	for _, s := range oks {
		if bus[s.ID] == 0 {
			class := "send-ok-not-on-bus"
			if rq, ok := reqOf[s.ID]; ok {
				for _, b := range g.Bus {
					if b.Channel == rq.ch && b.Seq == rq.seq && failed[b.ID] && b.At.Seq < s.Ret.Seq {
						// the documented history: an earlier Send failed (timed out) although its
						// request had reached the gateway; this Send re-used its sequence number
						// and was acknowledged as a repetition without reaching the bus
						class = "send-ok-not-on-bus:reused-number-of-failed-send-that-reached-gateway"
					}
				}
			}
			if rq, ok := reqOf[s.ID]; ok && class == "send-ok-not-on-bus" && !m.giveUp && onDeadChannel(rq) {
				class = "send-ok-not-on-bus:on-a-dead-channel-after-a-stray-connect-response"
			}
			e.Violate("C05", class, "Send id=%d reported success at %v but the gateway never put the telegram on the bus", s.ID, s.Ret.T)
			continue
		}
		if busPos[s.ID] < last {
			e.Violate("C05", "bus-order", "telegram id=%d whose Send completed later is on the bus before an earlier completed one", s.ID)
		}
		last = busPos[s.ID]
	}
	// bus -> client: every telegram the gateway saw acknowledged is delivered once, in order
	if c.Reader == "absent" || m.giveUp {
		return // (without a connection model there is no telling whether the tunnel stayed open)
	}
	open := m.term == nil && !m.between && (m.closeInv == nil || m.closeInv.Seq > r.h.Settled.Seq)
	delivered := map[int]int{}
	pos := map[int]int{}
	for i, d := range r.h.Deliv {
		delivered[d.ID]++
		if delivered[d.ID] == 1 {
			pos[d.ID] = i
		}
	}
	lastPos := -1
	for _, o := range g.Outs {
		if !o.Acked {
			continue
		}
		if delivered[o.ID] > 1 {
			e.Violate("C05", "inbound-duplicate", "telegram id=%d acknowledged to the gateway once was delivered %d times", o.ID, delivered[o.ID])
		}
		if delivered[o.ID] == 0 {
			if open {
				e.Violate("C05", "acked-not-delivered", "the gateway obtained an acknowledgement for telegram id=%d (seq %d) but the application never received it", o.ID, o.Seq)
			}
			continue
		}
		// in the gateway's order (the gateway is stop-and-wait here, so its order is total)
		if pos[o.ID] < lastPos {
			e.Violate("C05", "inbound-order", "telegram id=%d, which the gateway sent and saw acknowledged later, reached the application before an earlier one", o.ID)
		}
		lastPos = pos[o.ID]
	}
}

// ---------------------------------------------------------------------------------------
// C09: heartbeat, reconnect, termination.

func checkC09(v *tunView, m *connModel) {
	r := v.r
	e := r.e
	c := r.c
	eps := v.eps
	if c.TCP || m.giveUp {
		return
	}
	endOfObs := r.h.Settled
	if m.closeInv != nil && m.closeInv.Seq < endOfObs.Seq {
		endOfObs = *m.closeInv
	}
	if m.term != nil && m.term.T < endOfObs.T {
		endOfObs = *m.term
	}
	// (a) heartbeat cadence and (b) dead-connection detection, per epoch
	for k, ep := range m.epochs {
		end := ep.End
		if end.Seq == 0 {
			end = endOfObs
		}
		if end.T > endOfObs.T {
			end = endOfObs
		}
		if end.T <= ep.Start.T {
			continue
		}
		// connection-state requests of this epoch
		var hb []wireEv
		for _, x := range v.tx {
			if x.F.OK && x.F.Svc == svcConnStateReq && x.At.Seq > ep.Start.Seq && x.At.Seq <= end.Seq && !x.Werr {
				hb = append(hb, x)
				if x.F.Channel != ep.Channel {
					// a heartbeat exchange of the previous epoch may still be repeating its request
					// (or was built just before the change and left late: a write that stalled, a task that was held)
					if !chainBack(v, x, ep.Start, c.R+eps) && x.At.T > ep.Start.T+eps {
						e.Violate("C09", "heartbeat-wrong-channel", "connection-state request at %v carries channel %d, the connection's channel is %d", x.At.T, x.F.Channel, ep.Channel)
					}
				}
			}
		}
		// The receive loop may have waited for pending Sends before it started (stall window): its
		// heartbeat ticker is created when the wait ends. A request seen before that comes from a
		// heartbeat goroutine of the previous epoch that got going late and says nothing about
		// this epoch's cadence.
		prev := ep.Start.T
		slack := time.Duration(0)
		if ep.StallUntil > prev {
			prev = ep.StallUntil
		}
		from := prev
		for _, x := range hb {
			if ep.StallUntil > ep.Start.T && x.At.T <= from {
				continue
			}
			if x.At.T-prev > c.H+eps+slack {
				e.Violate("C09", "heartbeat-gap", "epoch %d (channel %d): no connection-state request between %v and %v; heartbeat interval is %v", k, ep.Channel, prev, x.At.T, c.H)
				break
			}
			prev = x.At.T
			slack = 0
		}
		if end.T-prev > c.H+eps+slack && ep.EndWhy != "discreq" && ep.EndWhy != "discres" {
			e.Violate("C09", "heartbeat-gap", "epoch %d (channel %d): no connection-state request between %v and %v; heartbeat interval is %v", k, ep.Channel, prev, end.T, c.H)
		}
		// every unanswered request is repeated within the resend interval (or the exchange ends)
		for i, x := range hb {
			if x.F.Channel != ep.Channel {
				continue
			}
			if k > 0 && x.At.T < ep.Start.T+c.H { // (no slack here: a ticker never fires early, and slack would only narrow the exemption)
				// this epoch's own ticker has not fired yet: the request comes from a heartbeat
				// goroutine of the previous epoch that got going late (it reads the channel when
				// it builds the request) and whose exchange ends as soon as it looks at its closed
				// result channel
				continue
			}
			lim := x.At.T + c.R + eps
			if lim >= end.T {
				continue
			}
			ok := false
			if i+1 < len(hb) && hb[i+1].At.T <= lim {
				ok = true
			}
			for _, y := range v.rx {
				if y.F.OK && y.F.Svc == svcConnStateRes && y.F.Channel == ep.Channel && y.At.T >= x.At.T-c.R-eps && y.At.T <= lim { // (a response parked for exactly R may still be taken: timer tie)
					ok = true
				}
			}
			if !ok {
				e.Violate("C09", "heartbeat-not-repeated", "connection-state request sent at %v was neither answered nor repeated within the resend interval %v", x.At.T, c.R)
				break
			}
		}
		// (b) silence bound: the last OK response (or the epoch start) is never older than H+T(+T)
		// A response read at u may have been parked for up to R before a heartbeat took it; the
		// heartbeat after that one starts H later and fails T later.
		lastOK := ep.StallUntil
		bound := c.H + c.T + c.R + 2*eps
		for _, y := range v.rx {
			if y.At.Seq <= ep.Start.Seq || y.At.Seq > end.Seq {
				continue
			}
			if y.F.OK && y.F.Svc == svcConnStateRes && y.F.Channel == ep.Channel && y.F.Status == 0 {
				if y.At.T-lastOK > bound {
					e.Violate("C09", "dead-connection-not-detected", "epoch %d (channel %d): no good heartbeat between %v and %v, yet no reconnect (H=%v T=%v)", k, ep.Channel, lastOK, y.At.T, c.H, c.T)
				}
				if y.At.T > lastOK {
					lastOK = y.At.T
				}
			}
		}
		if end.T-lastOK > bound {
			e.Violate("C09", "dead-connection-not-detected", "epoch %d (channel %d): no good heartbeat between %v and %v (end of epoch: %s), yet no reconnect (H=%v T=%v)", k, ep.Channel, lastOK, end.T, ep.EndWhy, c.H, c.T)
		}
		// (c) a disconnect request for the live channel is answered once and followed by a connect request
		if ep.EndWhy == "discreq" {
			n := 0
			var connAfter bool
			dl := ep.End.T + eps // deadline: at once, unless the receive loop was still stalled
			if ep.StallUntil+eps > dl {
				dl = ep.StallUntil + eps
			}
			if dl >= endOfObs.T {
				continue
			}
			nextStart := ^uint64(0) // answers after the next connection was established belong to it
			if k+1 < len(m.epochs) {
				nextStart = m.epochs[k+1].Start.Seq
			}
			for _, x := range v.tx {
				if x.At.Seq < ep.End.Seq || !x.F.OK || x.At.Seq > nextStart {
					continue
				}
				if x.F.Svc == svcDiscRes && x.F.Channel == ep.Channel && x.At.T <= dl {
					n++
				}
				if x.F.Svc == svcConnReq && x.At.T <= dl {
					connAfter = true
				}
			}
			closing := m.closeInv != nil && m.closeInv.T <= dl
			// The receive loop may have left the connection an instant before the disconnect
			// request was read - a heartbeat that had just failed (error status, or its timeout
			// running out) - and been held up on its way to the connect request (a stalled task,
			// a stalled write). Then the request is read inside the reconnect exchange, which
			// ignores it; what follows is the same connect request either way.
			if n == 0 && !closing {
				for _, y := range v.rx {
					if y.F.OK && y.F.Svc == svcConnStateRes && y.F.Channel == ep.Channel && y.F.Status != 0 && y.At.Seq > ep.Start.Seq && y.At.Seq < ep.End.Seq && ep.End.T-y.At.T <= c.R+eps {
						closing = true
					}
				}
				var t0 time.Duration = -1
				for i := len(hb) - 1; i >= 0; i-- {
					if hb[i].F.Channel != ep.Channel {
						continue
					}
					if t0 >= 0 && t0-hb[i].At.T > c.R+eps {
						break
					}
					t0 = hb[i].At.T
				}
				if t0 >= 0 && ep.End.T-(t0+c.T) >= -eps && ep.End.T-(t0+c.T) <= eps {
					closing = true
				}
				for _, y := range v.tx {
					// ... or a heartbeat request that could not even be written
					if y.Werr && y.F.OK && y.F.Svc == svcConnStateReq && y.F.Channel == ep.Channel && y.At.T <= ep.End.T+eps && ep.End.T-y.At.T <= eps {
						closing = true
					}
				}
				if closing {
					e.Probe("disconnect-request-met-a-failed-heartbeat")
				}
			}
			if n != 1 && !closing {
				e.Violate("C09", "disconnect-request-not-answered", "disconnect request for the live channel %d read at %v was answered with %d disconnect responses", ep.Channel, ep.End.T, n)
			}
			if !connAfter && !closing {
				e.Violate("C09", "no-reconnect-after-disconnect", "disconnect request for the live channel %d read at %v was not followed by a connect request", ep.Channel, ep.End.T)
			}
			e.Probe("reconnect-after-disconnect-request")
		}
		if ep.EndWhy == "async-reconnect" {
			e.Probe("reconnect-after-heartbeat-failure")
			// A heartbeat fails only when an answer with an error status arrives, when its request
			// cannot be written, or when the response timeout has run out - not earlier. The failed
			// exchange is the last chain of requests (spaced by the resend interval) before the
			// connect request; requests of the previous epoch's last exchange do not count.
			var chain []wireEv
			for i := len(hb) - 1; i >= 0; i-- {
				if hb[i].F.Channel != ep.Channel {
					continue
				}
				if len(chain) > 0 && chain[len(chain)-1].At.T-hb[i].At.T > c.R+eps {
					break
				}
				chain = append(chain, hb[i])
			}
			excused := len(chain) == 0
			t0 := ep.End.T
			if !excused {
				t0 = chain[len(chain)-1].At.T
				if ep.End.T-chain[0].At.T > c.R+eps {
					excused = true // the loop was held up somewhere between the exchange and the reconnect: not this exchange's timing
				}
			}
			for _, x := range v.tx {
				if x.Werr && x.F.OK && x.F.Svc == svcConnStateReq && x.At.Seq > ep.Start.Seq && x.At.Seq <= ep.End.Seq {
					excused = true
				}
			}
			for _, y := range v.rx {
				// (a response that the socket read while the loop was still waiting for the sender
				// lock is processed - and then on offer for one resend interval - when the stall ends)
				yt := y.At.T
				if yt < ep.StallUntil {
					yt = ep.StallUntil
				}
				if y.F.OK && y.F.Svc == svcConnStateRes && y.F.Channel == ep.Channel && y.F.Status != 0 && y.At.Seq > ep.Start.Seq && yt >= t0-c.R-eps && y.At.Seq <= ep.End.Seq {
					excused = true
				}
			}
			// ... and not at all when an answer with status OK was read while the exchange - the only
			// one in progress - was waiting for it. (With a heartbeat interval below T+R exchanges
			// overlap and an answer may go to the other one; those configurations are left alone.)
			if !excused && c.H >= c.T+c.R+eps && ep.End.T-t0 >= c.T-eps {
				for _, y := range v.rx {
					if y.F.OK && y.F.Svc == svcConnStateRes && y.F.Channel == ep.Channel && y.F.Status == 0 && y.At.T > t0+eps && y.At.T < t0+c.T-c.R-eps && y.At.Seq < ep.End.Seq && y.At.T > ep.StallUntil+eps {
						e.Violate("C09", "heartbeat-failed-although-answered", "epoch %d (channel %d): the heartbeat exchange begun at %v was answered with status OK at %v, well inside the response timeout %v, yet the client reconnected at %v", k, ep.Channel, t0, y.At.T, c.T, ep.End.T)
						break
					}
				}
			}
			if !excused && ep.End.T-t0 < c.T-eps {
				e.Violate("C09", "heartbeat-failed-early", "epoch %d (channel %d): the heartbeat exchange begun at %v was given up at %v (connect request), %v later; the response timeout is %v and no error status was received", k, ep.Channel, t0, ep.End.T, ep.End.T-t0, c.T)
			} else if !excused {
				e.Probe("heartbeat-timeout-honoured")
			}
		}
	}
	// (d) after a reconnect every newly transmitted request carries the new channel and starts at 0
	seenID := map[int]bool{}
	for _, x := range v.tx {
		if !x.F.OK || x.F.Svc != svcTunnelReq || x.Werr {
			continue
		}
		id := cemiID(x.F.CEMI)
		if seenID[id] {
			continue
		}
		seenID[id] = true
		ep := m.epochAt(x.At)
		if ep != nil && x.F.Channel != ep.Channel && x.At.T > ep.StallUntil+eps {
			e.Violate("C09", "stale-channel-after-reconnect", "request id=%d first transmitted at %v carries channel %d although channel %d was assigned at %v", id, x.At.T, x.F.Channel, ep.Channel, ep.Start.T)
		}
	}
	// foreign-channel disconnects are never answered
	for _, x := range v.tx {
		if x.F.OK && x.F.Svc == svcDiscRes {
			ep := m.epochAt(x.At)
			okc := false
			for _, q := range m.epochs {
				if q.Channel == x.F.Channel {
					okc = true
				}
			}
			_ = ep
			if !okc {
				e.Violate("C09", "foreign-disconnect-answered", "client answered a disconnect request for channel %d, which was never its channel", x.F.Channel)
			}
		}
	}
	// (e) termination: Inbound closed, Sends fail
	if m.term != nil && (m.closeInv == nil || m.closeInv.T > m.termT()+eps) {
		e.Probe("tunnel-terminated:" + m.termWhy)
		termT := m.termT()
		if c.Reader != "absent" && r.h.InboundEnd == nil {
			e.Violate("C09", "inbound-open-after-termination", "the tunnel terminated at %v (%s) but Inbound was never closed", termT, m.termWhy)
		}
		for _, s := range r.h.Sends {
			if s.Inv.T > termT+eps {
				if !s.Done {
					e.Violate("C09", "send-hangs-after-termination", "Send id=%d invoked at %v after the tunnel terminated at %v never returned", s.ID, s.Inv.T, termT)
				} else if s.OK {
					e.Violate("C09", "send-ok-after-termination", "Send id=%d invoked at %v after the tunnel terminated at %v reported success", s.ID, s.Inv.T, termT)
				} else if s.Ret.T-s.Inv.T > eps {
					e.Violate("C09", "send-slow-after-termination", "Send id=%d invoked after termination took %v to fail", s.ID, s.Ret.T-s.Inv.T)
				}
			} else if !s.Done {
				e.Violate("C09", "send-hangs-after-termination", "Send id=%d pending when the tunnel terminated at %v never returned", s.ID, termT)
			}
		}
	}
	// (f) runs in which nothing is wrong with the live connection: no reconnect, no termination
	if c.FaultFree && c.Director == 0 && !c.CloseEarly && (c.Adversary == 0 || c.ForeignOnly) {
		if c.ForeignOnly {
			e.Probe("foreign-channel-only-run")
			for _, s := range r.h.Sends {
				if !s.Done || !s.OK {
					e.Violate("C09", "foreign-frames-disturb-send", "only frames for foreign channels were injected, yet Send id=%d failed: done=%v err=%q", s.ID, s.Done, s.Err)
					break
				}
			}
			for _, x := range v.tx {
				if x.F.OK && (x.F.Svc == svcDiscRes || x.F.Svc == svcDiscReq) && (m.closeInv == nil || x.At.Seq < m.closeInv.Seq) {
					e.Violate("C09", "foreign-frames-trigger-disconnect", "only frames for foreign channels were injected, yet the client sent %s at %v", x.F, x.At.T)
					break
				}
			}
		}
		if len(m.connReqTx) > 1 {
			e.Violate("C09", "spurious-reconnect", "no fault touched the live connection in this run, yet the client issued %d connect attempts", len(m.connReqTx))
		}
		if m.term != nil {
			e.Violate("C09", "spurious-termination", "no fault touched the live connection in this run, yet the tunnel terminated (%s)", m.termWhy)
		}
	}
}

// chainBack reports whether frame x (an old-channel retransmission) is linked by transmissions
// at most gap apart back to before the given instant.
func chainBack(v *tunView, x wireEv, before Stamp, gap time.Duration) bool {
	t := x.At.T
	for i := len(v.tx) - 1; i >= 0; i-- {
		y := v.tx[i]
		if y.At.Seq >= x.At.Seq || !y.F.OK || y.F.Svc != x.F.Svc || y.F.Channel != x.F.Channel {
			continue
		}
		if t-y.At.T > gap {
			return false
		}
		t = y.At.T
		if y.At.Seq < before.Seq {
			return true
		}
	}
	return false
}

// ---------------------------------------------------------------------------------------
// C10: Close.

func checkC10(v *tunView, m *connModel) {
	r := v.r
	e := r.e
	c := r.c
	eps := v.eps
	if len(r.h.Closes) == 0 {
		return
	}
	first := r.h.Closes[0]
	for i, cc := range r.h.Closes {
		if !cc.Done {
			// (a closer whose turn came in the last instants of the run has not had the time to return)
			if e.S.Now()-cc.Inv.T > time.Duration(2+len(r.h.Sends))*(c.T+eps) {
				e.Violate("C10", "close-hangs", "Close call %d invoked at %v never returned", i, cc.Inv.T)
			}
			continue
		}
		// Close waits for the receive loop; inside a reconnect exchange that loop waits for its
		// answer (<= T) and then for every Send in progress or queued (<= T each).
		// A Send invoked while Close is still waiting gets in line for the same lock as the loop
		// (which asks for it at the end of the reconnect exchange, at most T after Close began) and
		// may be served first.
		pend := 0
		for _, sc := range r.h.Sends {
			// (the loop may ask for the lock a second time - reconnect after the stall - so every
			// Send that overlaps the Close call may be one it has to wait for)
			if sc.Inv.Seq < cc.Ret.Seq && (!sc.Done || sc.Ret.Seq > cc.Inv.Seq) {
				pend++
			}
		}
		bound := time.Duration(2+pend) * (c.T + eps)
		if d := cc.Ret.T - cc.Inv.T; d > bound {
			e.Violate("C10", "close-slow", "Close call %d took %v; bound is %v (response timeout %v, %d Sends pending)", i, d, bound, c.T, pend)
		}
	}
	var firstRet *CloseCall
	for _, cc := range r.h.Closes {
		if cc.Done && (firstRet == nil || cc.Ret.Seq < firstRet.Ret.Seq) {
			firstRet = cc
		}
	}
	// disconnect requests
	nDisc := 0
	werr := false
	for _, x := range v.tx {
		if x.At.Seq < first.Inv.Seq {
			if x.Werr {
				werr = true
			}
			continue
		}
		if x.F.OK && x.F.Svc == svcDiscReq {
			if x.Werr {
				werr = true
			} else {
				nDisc++
			}
		}
	}
	if nDisc > 1 {
		e.Violate("C10", "disconnect-request-repeated", "%d disconnect requests were sent for %d Close calls", nDisc, len(r.h.Closes))
	}
	if nDisc == 0 && !werr && !c.TCP {
		e.Violate("C10", "disconnect-request-missing", "Close sent no disconnect request although the socket was usable")
	}
	if firstRet == nil {
		return
	}
	if c.Reader != "absent" && r.h.InboundEnd == nil {
		e.Violate("C10", "inbound-open-after-close", "Close returned at %v but a range over Inbound never ended", firstRet.Ret.T)
	}
	for _, s := range r.h.lateSends {
		switch {
		case !s.Done:
			e.Violate("C10", "send-hangs-after-close", "Send invoked after Close returned never returned")
		case s.OK:
			e.Violate("C10", "send-ok-after-close", "Send invoked after Close returned reported success")
		case s.Ret.T-s.Inv.T > eps:
			e.Violate("C10", "send-slow-after-close", "Send invoked after Close returned took %v to fail", s.Ret.T-s.Inv.T)
		}
	}
	for _, s := range r.h.Sends {
		if !s.Done {
			e.Violate("C10", "send-hangs-after-close", "Send id=%d pending at Close never returned", s.ID)
			break
		}
		if s.Inv.Seq > firstRet.Ret.Seq && s.OK {
			e.Violate("C10", "send-ok-after-close", "Send id=%d invoked after Close returned reported success", s.ID)
		}
	}
	for _, t := range e.S.LiveLibTasks() {
		e.Violate("C10", "goroutine-leak:"+siteKey(t.SpawnSite), "library goroutine spawned at %s is still alive (at %s) %v after Close returned", t.SpawnSite, t.Site, e.S.Now()-firstRet.Ret.T)
	}
	if n := len(e.F.OpenSockets()); n > 1 { // the gateway's own socket stays open
		e.Violate("C10", "socket-open-after-close", "sockets still open after Close: %v", e.F.OpenSockets())
	}
	_ = fmt.Sprint
}

// termT is the instant by which the tunnel has certainly terminated: the terminating frame's
// read time, or the end of the receive loop's stall if it was read while the loop was waiting.
func (m *connModel) termT() time.Duration {
	t := m.term.T
	if n := len(m.epochs); n > 0 && m.epochs[n-1].StallUntil > t {
		t = m.epochs[n-1].StallUntil
	}
	return t
}
