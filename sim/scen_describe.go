package sim

import (
	"fmt"
	"net"
	"reflect"
	"strings"
	"time"

	"github.com/vapourismo/knx-go/knx"
	"github.com/vapourismo/knx-go/knx/knxnet"
	"github.com/vapourismo/knx-go/knx/simnet"
	"github.com/vapourismo/knx-go/knx/simrt"
)

// C20: DescribeTunnel / Discover against 0..20 responders that answer immediately, late, never,
// repeatedly, with malformed frames or other services first, or whose port is closed.

func init() {
	register(&Scenario{Name: "describe", Props: []string{"C20"}, Run: runDescribe})
}

func mkDeviceDIB(name string) []byte {
	n := make([]byte, 30)
	copy(n, name)
	return append([]byte{54, 1, 0x02, 0, 0x11, 0x01, 0, 0, 1, 2, 3, 4, 5, 6, 224, 0, 23, 12, 1, 2, 3, 4, 5, 6}, n...)
}

func mkFamDIB(n int) []byte {
	b := []byte{byte(2 + 2*n), 2}
	for i := n; i > 0; i-- {
		b = append(b, byte(2+i), byte(i))
	}
	return b
}

func runDescribe(e *Env) {
	s := e.S
	discover := e.Choose("cfg.discover", 2) == 1
	timeout := e.PickDur("cfg.timeout", time.Millisecond, 10*time.Millisecond, 100*time.Millisecond, 500*time.Millisecond)
	nresp := e.Choose("cfg.responders", 21)
	if !discover && nresp > 3 {
		nresp = e.Choose("cfg.responders4", 4)
	}
	tlate := 0
	if e.Choose("cfg.tlate", 4) == 0 {
		tlate = 200
	}
	killRx := e.Choose("cfg.killrx", 6) == 0
	reqFails := e.Choose("cfg.reqfails", 10) == 0 // the request cannot be written: the call fails, and still cleans up
	sticky := []int{600, 0, 850}[e.Choose("cfg.sticky", 3)]
	e.Cfg("discover=%v timeout=%v responders=%d tlate=%d killrx=%v sticky=%d reqfails=%v", discover, timeout, nresp, tlate, killRx, sticky, reqFails)
	s.SetConfig(func(sc *simrt.Config) {
		sc.StickyPermille = sticky
		sc.LatePermille = tlate
		sc.LateMax = timeout / 4
		sc.MaxSteps = 20000
		sc.SpinLimit = 400 // the busy-poll on a closed Inbound is cut short: the clock moves on after 400 idle iterations
	})
	for _, a := range []string{gwIP, clientIP, peerIP, "10.0.1.1"} {
		for _, b := range []string{gwIP, clientIP, groupIP} {
			l := simnet.Link{DelayMin: 100 * time.Microsecond, DelayMax: 100 * time.Microsecond}
			if reqFails && a == clientIP {
				l.WriteErrPermille = 1000
			}
			e.F.SetLink(a, b, l)
		}
	}
	group := &net.UDPAddr{IP: net.ParseIP(groupIP).To4(), Port: gwPort}
	// the server side: one socket that sees the request and from which every answer is sent
	var srv *simnet.UDPConn
	if discover {
		srv = e.F.ListenUDPOn(peerIP, gwPort)
		srv.JoinGroupIP(group.IP)
	} else {
		srv = e.F.ListenUDPOn(gwIP, gwPort)
	}
	var reqFrom *net.UDPAddr
	// responses that are well formed by construction, whatever the library's decoder makes of them (raw bytes -> friendly name)
	wellFormed := map[string]string{}
	famCount := map[string]int{}   // frames built here -> number of service families they announce
	illFormed := map[string]bool{} // frames that are malformed by construction, whatever the decoder makes of them
	var reqs [][]byte
	s.Spawn("server-rx", func() {
		buf := make([]byte, 2048)
		for {
			n, from, err := srv.ReadFromUDP(buf)
			if err != nil {
				return
			}
			f := parseFrame(append([]byte(nil), buf[:n]...))
			if f.OK && (f.Svc == svcDescrReq || f.Svc == svcSearchReq) {
				reqs = append(reqs, f.Raw)
				reqFrom = from
			}
		}
	})
	// responders: each waits for the request, then behaves in its own way
	for i := 0; i < nresp; i++ {
		i := i
		s.Spawn(fmt.Sprintf("responder%d", i), func() {
			s.WaitUntil("await-request", func() bool { return reqFrom != nil })
			to := reqFrom
			if discover {
				to = group
			}
			extra := []byte{}
			if e.Choose("wl.extradib", 2) == 1 {
				// further description blocks the library keeps unparsed (IP config, KNX addresses, manufacturer data)
				for k := 1 + e.Choose("wl.nextra", 3); k > 0; k-- {
					ty := []byte{3, 4, 5, 0xfe}[e.Choose("wl.extraty", 4)]
					n := 2 + e.Choose("wl.extralen", 20)
					blk := []byte{byte(2 + n), ty}
					for j := 0; j < n; j++ {
						blk = append(blk, byte(0xa0+i+j))
					}
					extra = append(extra, blk...)
				}
			}
			// friendly names of every length, up to one that fills the 30-octet field without a terminator
			devName := fmt.Sprintf("dev%d", i)
			switch e.Choose("wl.namelen", 5) {
			case 2:
				devName = (devName + "-abcdefghijklmnopqrstuvwxyz01234")[:29]
			case 3:
				devName = (devName + "-abcdefghijklmnopqrstuvwxyz01234")[:30]
			case 4:
				devName = ""
			}
			if e.Choose("wl.namelatin1", 4) == 0 && len(devName) <= 24 {
				devName = "K\xfcche" + devName // ISO 8859-1, as the field is specified: the decoder transcodes it
			}
			good := mkFrame(svcDescrRes, append(append(mkDeviceDIB(devName), mkFamDIB(1+i%4)...), extra...))
			other := mkFrame(svcDescrRes, append(append(mkDeviceDIB(fmt.Sprintf("x%d", i)), mkFamDIB(2)...), bytesOf(0x55, len(extra))...))
			if discover {
				good = mkFrame(svcSearchRes, append(append(append(mkHPAI(1, [4]byte{10, 0, 1, byte(i)}, 3671), mkDeviceDIB(devName)...), mkFamDIB(1+i%4)...), extra...))
				if len(extra) > 0 {
					e.Fault("search-response-with-further-blocks")
				}
			}
			wellFormed[string(good)], wellFormed[string(other)] = devName, fmt.Sprintf("x%d", i)
			famCount[string(good)], famCount[string(other)] = 1+i%4, 2
			send := func(b []byte) { srv.WriteToUDP(b, to) }
			noise := func() {
				switch e.Choose("wl.noise", 7) {
				case 6: // a response that breaks off one octet after a block boundary: not a response
					body := append(append(mkDeviceDIB("surplus"), mkFamDIB(1)...), 0x08)
					// (description responses only: the library reads a search response leniently and
					// takes one with octets behind its last block for what it is - the statement does
					// not say otherwise)
					bad := mkFrame(svcDescrRes, body)
					if !discover {
						illFormed[string(bad)] = true
					}
					send(bad)
				case 0:
					send(mkConnStateRes(1, 0))
					if discover {
						// a search response that ends behind its endpoint, or behind its device block
						body := append(mkHPAI(1, [4]byte{10, 0, 1, 7}, 3671), mkDeviceDIB("cut")...)
						bad := mkFrame(svcSearchRes, body[:[]int{8, len(body)}[e.Choose("wl.cutsearch", 2)]])
						illFormed[string(bad)] = true
						send(bad)
					}
				case 1:
					bad := mkFrame(svcDescrRes, []byte{0x36, 1, 2, 3}) // truncated description
					switch e.Choose("wl.badblock", 3) {
					case 1: // a device block two octets short of its fixed 54 (the blocks add up to the frame all the same)
						dev := mkDeviceDIB("short-dev")
						dev = dev[:52]
						dev[0] = 52
						bad = mkFrame(svcDescrRes, append(dev, mkFamDIB(1)...))
					case 2: // a families block with half a family in it
						fam := append(mkFamDIB(2), 7)
						fam[0]++
						bad = mkFrame(svcDescrRes, append(mkDeviceDIB("odd-fam"), fam...))
					}
					illFormed[string(bad)] = true
					send(bad)
				case 2:
					send([]byte{6, 0x10, 2})
				case 3:
					if discover {
						send(mkFrame(svcDescrRes, append(mkDeviceDIB("other"), mkFamDIB(1)...)))
					} else {
						send(mkFrame(svcSearchRes, append(append(mkHPAI(1, [4]byte{10, 0, 1, 9}, 3671), mkDeviceDIB("other")...), mkFamDIB(1)...)))
					}
				case 4:
					send(mkFrame(0x0999, []byte{1, 2, 3}))
				case 5: // a description block of an unparsed type with an odd length
					l := []byte{0, 1, 2, 3, 4, 5}[e.Choose("wl.oddlen", 6)]
					ty := []byte{3, 4, 5, 0xfe, 0x77}[e.Choose("wl.oddty", 5)]
					send(mkFrame(svcDescrRes, append(append(mkDeviceDIB("odd"), mkFamDIB(1)...), l, ty, 9, 9, 9)))
				}
			}
			delay := func() time.Duration {
				// around the deadline on purpose
				switch e.Choose("wl.when", 6) {
				case 0:
					return 0
				case 1:
					return timeout / 3
				case 2:
					return timeout - 200*time.Microsecond
				case 3:
					return timeout + 300*time.Microsecond
				case 4:
					return 2 * timeout
				}
				return time.Duration(e.Choose("wl.whenamt", 100)) * timeout / 50
			}
			switch e.Choose("wl.behave", 7) {
			case 0: // immediately
				send(good)
			case 1: // late or in time
				s.SleepFor(delay())
				send(good)
			case 2: // never
			case 3: // repeatedly, and something else right behind the answer
				for k := 1 + e.Choose("wl.rep", 4); k > 0; k-- {
					send(good)
					if !discover && e.Choose("wl.behind", 2) == 0 {
						send(other)
					}
					s.SleepFor(delay() / 4)
				}
			case 4: // noise first
				for k := 1 + e.Choose("wl.nn", 5); k > 0; k-- {
					noise()
				}
				s.SleepFor(delay())
				send(good)
			case 5: // flood of unrelated frames
				for k := 3 + e.Choose("wl.flood", 30); k > 0; k-- {
					noise()
					if e.Choose("wl.fgap", 3) == 0 {
						s.SleepFor(timeout / 20)
					}
				}
			case 6: // from a foreign address (filtered by a connected socket; on the group it is just another server)
				other := e.F.ListenUDPOn("10.0.1.1", 4000+i)
				other.WriteToUDP(good, to)
				other.Close()
			}
		})
	}
	if killRx {
		s.Spawn("icmp", func() {
			s.WaitUntil("await-request", func() bool { return reqFrom != nil })
			s.SleepFor(time.Duration(e.Choose("flt.killat", 10)) * timeout / 10)
			for _, c := range e.F.LibUDPConns() {
				c.InjectReadError(fmt.Errorf("connection refused"))
			}
		})
	}
	// the call
	var resD *knxnet.DescriptionRes
	var resS []*knxnet.SearchRes
	var err error
	start := e.Stamp()
	var ret Stamp
	returned := e.Call("call", 50*timeout+time.Second, func() {
		if discover {
			resS, err = knx.Discover(fmt.Sprintf("%s:%d", groupIP, gwPort), timeout)
		} else {
			resD, err = knx.DescribeTunnel(fmt.Sprintf("%s:%d", gwIP, gwPort), timeout)
		}
		ret = e.Stamp()
	})
	s.SleepFor(3*timeout + 10*time.Millisecond)
	srv.Close()
	simrt.Yield("end")

	// ---- oracle
	eps := e.Eps()
	name := "DescribeTunnel"
	if discover {
		name = "Discover"
	}
	if !returned {
		e.Violate("C20", "call-never-returned", "%s(timeout %v) had not returned %v after it was called", name, timeout, s.Now()-start.T)
		return
	}
	releaseChecks := func() {
		lblr := "udp:" + clientIP
		if discover {
			lblr = routerLbl
		}
		for _, l := range e.F.OpenSockets() {
			if strings.HasPrefix(l, lblr) {
				e.Violate("C20", "socket-not-released", "%s returned but its socket %s is still open", name, l)
			}
		}
		for _, t := range e.S.LiveLibTasks() {
			e.Violate("C20", "goroutine-leak:"+siteKey(t.SpawnSite), "library goroutine spawned at %s still alive (at %s) after %s returned", t.SpawnSite, t.Site, name)
		}
	}
	if reqFails {
		// nothing could be sent: the call reports it (or finds nothing); what it must not do is
		// keep its socket or its receiver
		if err == nil && (resD != nil || len(resS) > 0) {
			e.Violate("C20", "result-without-request", "%s returned a result although its request could not be written", name)
		}
		e.Probe("request-write-failed")
		releaseChecks()
		return
	}
	if err != nil {
		e.Violate("C20", "call-error", "%s returned an error: %v", name, err)
		return
	}
	el := ret.T - start.T
	if el > timeout+eps {
		e.Violate("C20", "returned-late", "%s(timeout %v) returned after %v (slack %v)", name, timeout, el, eps)
	}
	// what the library's socket read, in order
	lbl := "udp:" + clientIP
	if discover {
		lbl = routerLbl
	}
	type rd struct {
		at  Stamp
		raw []byte
	}
	var reads []rd
	var libReqs []Frame
	for _, rec := range e.F.Records() {
		if !strings.HasPrefix(rec.Sock, lbl) {
			continue
		}
		switch rec.Kind {
		case "arrive": // what the socket received (whether or not the receiver got round to reading it)
			if !killRx {
				reads = append(reads, rd{Stamp{rec.T, rec.Seq}, rec.Data})
			}
		case "read": // when the socket is made to fail, only what was read before it failed counts
			if killRx {
				reads = append(reads, rd{Stamp{rec.T, rec.Seq}, rec.Data})
			}
		case "send":
			libReqs = append(libReqs, parseFrame(rec.Data))
		}
	}
	if len(libReqs) != 1 {
		e.Violate("C20", "request-count", "%s put %d datagrams on the wire, expected exactly one request", name, len(libReqs))
	} else {
		f := libReqs[0]
		wantSvc := uint16(svcDescrReq)
		if discover {
			wantSvc = svcSearchReq
		}
		if !f.OK || f.Svc != wantSvc {
			e.Violate("C20", "request-kind", "%s sent %s", name, f)
		} else if !discover {
			port := clientPort(e)
			want := mkHPAI(1, [4]byte{10, 0, 0, 2}, uint16(port))
			if string(f.HPAI) != string(want) {
				e.Violate("C20", "request-endpoint", "the description request advertises %x, the socket's local endpoint is %x", f.HPAI, want)
			}
		}
	}
	deadline := start.T + timeout
	if discover {
		var must, may []*knxnet.SearchRes
		var mayRaw []string
		for _, r := range reads {
			if illFormed[string(r.raw)] {
				if svc, _, derr, p := refDecode(r.raw); derr == nil && p == "" {
					for _, got := range resS {
						if reflect.DeepEqual(svc, got) {
							e.Violate("C20", "returned-malformed-frame", "Discover returned %s, decoded from a frame that is malformed (%d octets %x)", dump(got), len(r.raw), clipBytes(r.raw))
						}
					}
				}
				continue
			}
			svc, _, derr, p := refDecode(r.raw)
			if derr != nil || p != "" {
				if nm, ok := wellFormed[string(r.raw)]; ok && parseFrame(r.raw).Svc == svcSearchRes {
					// a response that is well formed by construction but that the library's own
					// decoder turns down: it still counts as received (the result cannot match it)
					sr := &knxnet.SearchRes{}
					sr.DescriptionB.DeviceHardware.FriendlyName = "<well-formed response with name " + nm + " which the decoder rejects>"
					svc, derr, p = sr, nil, ""
				} else {
					continue
				}
			}
			sr, ok := svc.(*knxnet.SearchRes)
			if !ok {
				continue
			}
			if r.at.Seq > ret.Seq {
				continue
			}
			may = append(may, sr)
			mayRaw = append(mayRaw, string(r.raw))
			if r.at.T < deadline-eps {
				must = append(must, sr)
			}
		}
		// the result must be a prefix-closed selection: all "must", then possibly some of the
		// responses read in the deadline's instant, in arrival order
		if len(resS) < len(must) || len(resS) > len(may) {
			e.Violate("C20", "discover-result-count", "Discover returned %d responses; %d were read before the deadline and %d by the time it returned", len(resS), len(must), len(may))
		} else {
			for i := range resS {
				if !reflect.DeepEqual(resS[i], may[i]) {
					e.Violate("C20", "discover-result-differs", "Discover's result #%d is %s, the response read #%d was %s", i, dump(resS[i]), i, dump(may[i]))
					break
				}
				if n, ok := famCount[mayRaw[i]]; ok && len(resS[i].DescriptionB.SupportedServices.Families) != n {
					e.Violate("C20", "discover-result-content", "Discover's result #%d lists %d service families, the response it was read from announces %d: %s", i, len(resS[i].DescriptionB.SupportedServices.Families), n, dump(resS[i]))
					break
				}
			}
		}
		if el < timeout-eps {
			e.Violate("C20", "returned-early", "Discover(timeout %v) returned after %v", timeout, el)
		}
		if len(must) > 0 {
			e.Probe("discover-with-responses")
		}
	} else {
		var first *knxnet.DescriptionRes
		var firstAt Stamp
		firstRaw := ""
		for _, r := range reads {
			if illFormed[string(r.raw)] {
				if svc, _, derr, p := refDecode(r.raw); derr == nil && p == "" && resD != nil && reflect.DeepEqual(svc, resD) {
					e.Violate("C20", "returned-malformed-frame", "DescribeTunnel returned %s, decoded from a frame that is malformed (%d octets %x)", dump(resD), len(r.raw), clipBytes(r.raw))
				}
				continue
			}
			svc, _, derr, p := refDecode(r.raw)
			if derr != nil || p != "" {
				if nm, ok := wellFormed[string(r.raw)]; ok && parseFrame(r.raw).Svc == svcDescrRes {
					dr := &knxnet.DescriptionRes{}
					dr.DeviceHardware.FriendlyName = "<well-formed response with name " + nm + " which the decoder rejects>"
					svc, derr, p = dr, nil, ""
				} else {
					continue
				}
			}
			if dr, ok := svc.(*knxnet.DescriptionRes); ok {
				first, firstAt, firstRaw = dr, r.at, string(r.raw)
				break
			}
		}
		switch {
		case resD != nil:
			if first == nil || !reflect.DeepEqual(resD, first) {
				e.Violate("C20", "describe-result-differs", "DescribeTunnel returned %s, the first description response read was %s", dump(resD), dump(first))
			} else if n, ok := famCount[firstRaw]; ok && len(resD.SupportedServices.Families) != n {
				e.Violate("C20", "describe-result-content", "DescribeTunnel's result lists %d service families, the response it was read from announces %d: %s", len(resD.SupportedServices.Families), n, dump(resD))
			} else if ret.T-firstAt.T > eps {
				e.Violate("C20", "returned-late", "DescribeTunnel returned %v after the response was read", ret.T-firstAt.T)
			}
			e.Probe("describe-with-response")
		case first != nil && firstAt.T < deadline-eps && firstAt.Seq < ret.Seq:
			e.Violate("C20", "describe-missed-response", "a description response was read at %v, %v before the deadline, but DescribeTunnel returned no result", firstAt.T, deadline-firstAt.T)
		default:
			if el < timeout-eps {
				e.Violate("C20", "returned-early", "DescribeTunnel(timeout %v) returned no result after %v", timeout, el)
			}
		}
	}
	// the socket is released, nothing of the call stays alive
	for _, l := range e.F.OpenSockets() {
		if strings.HasPrefix(l, lbl) {
			e.Violate("C20", "socket-not-released", "%s returned but its socket %s is still open", name, l)
		}
	}
	for _, t := range e.S.LiveLibTasks() {
		e.Violate("C20", "goroutine-leak:"+siteKey(t.SpawnSite), "library goroutine spawned at %s still alive (at %s) after %s returned", t.SpawnSite, t.Site, name)
	}
	if p := e.S.Stats.Probes; p != nil && e.S.Stats.ClockJumps > 0 {
		e.Probe("busy-poll-on-closed-inbound")
	}
}

func bytesOf(b byte, n int) []byte {
	out := make([]byte, n)
	for i := range out {
		out[i] = b
	}
	if n >= 2 {
		out[0], out[1] = byte(n), 0xfe // keep it a well-formed block
	}
	return out
}
