package sim

import (
	"fmt"

	"github.com/vapourismo/knx-go/knx"
	"github.com/vapourismo/knx-go/knx/knxnet"
)

// runTunnelTCP: the same workload over a TCP tunnel (no acknowledgements, no sequence numbers).
func runTunnelTCP(r *tunRun) {
	e, c := r.e, r.c
	gw, lis := newTCPGateway(e, gwIP, gwPort)
	r.gw = gw
	gw.StartTCP(lis)
	tun, err := knx.NewTunnel(fmt.Sprintf("%s:%d", gwIP, gwPort), knxnet.TunnelLayerData, knx.TunnelConfig{
		ResendInterval: c.R, HeartbeatInterval: c.H, ResponseTimeout: c.T, SendLocalAddress: c.LocalAddr, UseTCP: true,
	})
	r.h.Created = e.Stamp()
	if err != nil {
		e.Violate("C03", "tcp-connect-failed", "NewTunnel over a lossless TCP stream failed: %v", err)
		return
	}
	r.tun = tun
	r.startWorkload()
	r.finish()
	checkTunnel(r)
}
