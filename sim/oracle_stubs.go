package sim

func runTunnelTCP(r *tunRun) {}
