package sim

func checkC04(v *tunView, m *connModel) {}
func checkC05(v *tunView, m *connModel) {}
func checkC09(v *tunView, m *connModel) {}
func checkC10(v *tunView, m *connModel) {}
func runTunnelTCP(r *tunRun)            {}
