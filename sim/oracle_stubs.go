package sim

import (
	"fmt"

	"github.com/vapourismo/knx-go/knx"
	"github.com/vapourismo/knx-go/knx/knxnet"
)

// runTunnelTCP: the same workload over a TCP tunnel (no acknowledgements, no sequence numbers).
func runTunnelTCP(r *tunRun) {
	e, c := r.e, r.c
	gw, lis := newTCPGateway(e, gwIP, gwPort)
	r.gw = gw
	// the byte stream is cut into segments wherever the network pleases: whole frames, two
	// pieces, or a dribble of single octets
	switch seg := e.Choose("cfg.tcpseg", 4); seg {
	case 1:
		gw.TCPCutter = func(n int) []int {
			if n < 2 {
				return []int{n}
			}
			k := 1 + e.Choose("wl.tcpcut", n-1)
			e.Fault("tcp-frame-split")
			return []int{k, n - k}
		}
	case 2:
		gw.TCPCutter = func(n int) []int {
			e.Fault("tcp-dribble")
			var out []int
			for n > 0 {
				k := 1 + e.Choose("wl.tcpdrib", 3)
				if k > n {
					k = n
				}
				out = append(out, k)
				n -= k
			}
			return out
		}
	}
	gw.StartTCP(lis)
	layer := knxnet.TunnelLayerData
	if c.Busmon {
		layer = knxnet.TunnelLayerBusmon
	}
	gw.Busmon = c.Busmon
	tcfg := knx.TunnelConfig{ResendInterval: c.R, HeartbeatInterval: c.H, ResponseTimeout: c.T, SendLocalAddress: c.LocalAddr, UseTCP: true}
	if c.Defaults {
		tcfg = knx.TunnelConfig{SendLocalAddress: c.LocalAddr, UseTCP: true}
	}
	tun, err := knx.NewTunnel(fmt.Sprintf("%s:%d", gwIP, gwPort), layer, tcfg)
	r.h.Created = e.Stamp()
	if err != nil {
		e.Violate("C03", "tcp-connect-failed", "NewTunnel over a lossless TCP stream failed: %v", err)
		return
	}
	r.tun = tun
	// frames of other connections multiplexed on the stream: they must not surface
	e.S.Spawn("tcp-foreign", func() {
		for i := e.Choose("wl.tcpforeign", 6); i > 0; i-- {
			e.S.SleepFor(e.PickDur("wl.tcpfgap", 0, c.R/4, c.R))
			if cur := gw.Cur(); cur != nil {
				e.Fault("foreign-channel")
				gw.send(mkTunnelReq(cur.Channel+1+uint8(e.Choose("wl.tcpfch", 200)), 0, idCEMI(0x29, r.newID())))
			}
		}
	})
	r.startWorkload()
	r.finish()
	checkTunnel(r)
}
