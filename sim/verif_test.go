package sim

import "testing"

func TestVerif(t *testing.T) {
	switch *fMode {
	case "":
		t.Skip("no -verif.mode")
	case "worker":
		workerMain(t)
	case "one":
		oneMain(t)
	case "replay":
		replayMain(t)
	case "minimise":
		minimiseMain(t)
	case "check":
		checkMain(t)
	case "determinism":
		determinismMain(t)
	default:
		t.Fatalf("unknown mode %s", *fMode)
	}
}
