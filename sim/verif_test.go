package sim

import (
	"syscall"
	"testing"
)

func TestVerif(t *testing.T) {
	// A run whose library code allocates in an endless loop must end as a crash of its own process
	// ("out of memory", with the library on the stack), not as a machine that swaps: the sandbox sets
	// no memory limit of its own.
	lim := syscall.Rlimit{Cur: 24 << 30, Max: 24 << 30}
	var old syscall.Rlimit
	if syscall.Getrlimit(syscall.RLIMIT_AS, &old) == nil && old.Cur > lim.Cur {
		if old.Max < lim.Max {
			lim.Max = old.Max
		}
		syscall.Setrlimit(syscall.RLIMIT_AS, &lim)
	}
	switch *fMode {
	case "":
		t.Skip("no -verif.mode")
	case "worker":
		workerMain(t)
	case "one":
		oneMain(t)
	case "replay":
		replayMain(t)
	case "minimise":
		minimiseMain(t)
	case "check":
		checkMain(t)
	case "determinism":
		determinismMain(t)
	default:
		t.Fatalf("unknown mode %s", *fMode)
	}
}
