package sim

import (
	"bytes"
	"fmt"
	"net"
	"reflect"
	"strings"
	"time"

	"github.com/vapourismo/knx-go/knx"
	"github.com/vapourismo/knx-go/knx/cemi"
	"github.com/vapourismo/knx-go/knx/simnet"
	"github.com/vapourismo/knx-go/knx/simrt"
)

// C12: group events <-> L_Data frames through GroupTunnel and GroupRouter. Outbound frames are
// read with the harness's own L_Data reader (frames.go), inbound cEMI of every kind is injected
// by the peer, and everything the client sends is looped back to it so that an event crosses
// both directions.

func init() {
	register(&Scenario{Name: "groups", Props: []string{"C12", "C17"}, Run: runGroups})
}

type grpEvent struct {
	Cmd  uint8
	Src  uint16
	Dst  uint16
	Data []byte
}

func (g grpEvent) String() string {
	return fmt.Sprintf("{cmd=%d src=%#04x dst=%#04x data=[%d]%x}", g.Cmd, g.Src, g.Dst, len(g.Data), clipBytes(g.Data))
}

// image is what a group event looks like after crossing the wire: an empty payload arrives as a
// single zero byte and only the low six bits of the first payload byte are carried.
func (g grpEvent) image() grpEvent {
	d := append([]byte(nil), g.Data...)
	if len(d) == 0 {
		d = []byte{0}
	}
	d[0] &= 0x3f
	return grpEvent{g.Cmd, g.Src, g.Dst, d}
}

// surfaces reports whether an inbound cEMI frame must become a group event, and which.
func surfaces(c []byte) (grpEvent, bool) {
	v := parseLData(c)
	if !v.OK || v.Code != 0x29 || v.Ctrl2&0x80 == 0 || v.Control || v.APCI > 2 {
		return grpEvent{}, false
	}
	return grpEvent{v.APCI, v.Src, v.Dst, v.Data}, true
}

// addr16 draws a 16-bit address, the boundary values more often than chance would.
func addr16(e *Env, kind string) uint16 {
	switch e.Choose(kind+".edge", 8) {
	case 0:
		return 0
	case 1:
		return 0xffff
	case 2:
		return []uint16{1, 0x00ff, 0x0100, 0x7fff, 0x8000, 0xff00}[e.Choose(kind+".edgev", 6)]
	}
	return uint16(e.Choose(kind, 65536))
}

func runGroups(e *Env) {
	s := e.S
	router := e.Choose("cfg.router", 2) == 1
	nsend := 1 + e.Choose("cfg.nsend", 12)
	ninj := e.Choose("cfg.ninj", 25)
	if e.Choose("cfg.bigburst", 4) == 0 {
		ninj = 30 + e.Choose("cfg.ninjbig", 60)
	}
	reader := []string{"ready", "slow", "stalled"}[e.Choose("cfg.reader", 3)]
	stalled := reader == "stalled"
	nsenders := 1 + e.Choose("cfg.senders", 4)
	lossy := !router && e.Choose("cfg.lossy", 3) == 0 // the tunnel retransmits: frames are re-packed
	e.Cfg("router=%v sends=%d injected=%d reader=%s senders=%d lossy=%v", router, nsend, ninj, reader, nsenders, lossy)
	s.SetConfig(func(sc *simrt.Config) {
		sc.StickyPermille = []int{600, 0, 850}[e.Choose("cfg.sticky", 3)]
		sc.MaxSteps = 60000
	})
	lnk := simnet.Link{DelayMin: 100 * time.Microsecond, DelayMax: 100 * time.Microsecond}
	for _, a := range []string{gwIP, clientIP, peerIP} {
		for _, b := range []string{gwIP, clientIP, groupIP} {
			e.F.SetLink(a, b, lnk)
		}
	}
	var sent []grpEvent  // events handed to Send
	var expIn []grpEvent // events that must surface on Inbound, in order
	var gotIn []grpEvent
	var held []knx.GroupEvent
	inClosed := false
	var gt knx.GroupTunnel
	var gr knx.GroupRouter
	var gw *Gateway
	var peer *simnet.UDPConn
	group := &net.UDPAddr{IP: net.ParseIP(groupIP).To4(), Port: gwPort}
	nextID := 0x4000
	var err error
	if router {
		peer = e.F.ListenUDPOn(peerIP, gwPort)
		peer.JoinGroupIP(group.IP)
		s.Spawn("peer-rx", func() { // echo: what the client sends comes back to it
			buf := make([]byte, 2048)
			for {
				n, from, err := peer.ReadFromUDP(buf)
				if err != nil {
					return
				}
				f := parseFrame(append([]byte(nil), buf[:n]...))
				if f.OK && f.Svc == svcRoutingInd && from.IP.String() == clientIP {
					if ev, ok := surfaces(f.CEMI); ok {
						expIn = append(expIn, ev)
					}
					peer.WriteToUDP(f.Raw, group)
				}
			}
		})
		gr, err = knx.NewGroupRouter(fmt.Sprintf("%s:%d", groupIP, gwPort), knx.RouterConfig{PostSendPauseDuration: time.Millisecond})
	} else {
		gw = newGateway(e, gwIP, gwPort)
		gw.RawOf = map[int][]byte{}
		gw.Window = 1               // in-order, lossless: what must surface is then known exactly
		gw.OnBus = func(c []byte) { // loop back as an indication
			ind := append([]byte(nil), c...)
			ind[0] = 0x29
			nextID++
			gw.RawOf[nextID] = ind
			if ev, ok := surfaces(ind); ok {
				expIn = append(expIn, ev)
			}
			gw.Push(nextID)
		}
		gw.Start()
		gt, err = knx.NewGroupTunnel(fmt.Sprintf("%s:%d", gwIP, gwPort), knx.TunnelConfig{ResendInterval: 50 * time.Millisecond, ResponseTimeout: time.Second, HeartbeatInterval: 5 * time.Second})
	}
	if err != nil {
		e.HarnessError("cannot create group client: %v", err)
		return
	}
	var in <-chan knx.GroupEvent
	if router {
		in = gr.Inbound()
	} else {
		in = gt.Inbound()
	}
	s.Spawn("reader", func() {
		for {
			if reader == "slow" && e.Choose("wl.rslow", 3) == 0 {
				s.SleepFor(time.Duration(1+e.Choose("wl.rslowamt", 10)) * time.Millisecond)
			}
			if stalled {
				s.WaitUntil("reader-stalled", func() bool { return !stalled })
			}
			ev, ok := simrt.Recv2("reader", in)
			if !ok {
				inClosed = true
				return
			}
			gotIn = append(gotIn, grpEvent{uint8(ev.Command), uint16(ev.Source), uint16(ev.Destination), append([]byte(nil), ev.Data...)})
			held = append(held, ev) // the application keeps the event: what it holds must not change under its feet
		}
	})
	// the workload: sends and injections interleaved by one task (so the expected order is known)
	done := false
	s.Spawn("workload", func() {
		defer func() { done = true }()
		ns, ni := nsend, ninj
		for ns+ni > 0 {
			doSend := ni == 0 || ns > 0 && e.Choose("wl.which", 2) == 0
			if doSend {
				ns--
				ev := grpEvent{Cmd: uint8(e.Choose("wl.cmd", 3)), Src: addr16(e, "wl.src"), Dst: addr16(e, "wl.dst")}
				n := []int{0, 1, 2, 14, 15, 16, 17, 100, 254}[e.Choose("wl.len", 9)]
				ev.Data = make([]byte, n)
				for i := range ev.Data {
					ev.Data[i] = byte(e.Choose("wl.byte", 256))
				}
				sent = append(sent, ev)
				ge := knx.GroupEvent{Command: knx.GroupCommand(ev.Cmd), Source: cemi.IndividualAddr(ev.Src), Destination: cemi.GroupAddr(ev.Dst), Data: append([]byte(nil), ev.Data...)}
				var serr error
				if router {
					serr = gr.Send(ge)
				} else {
					serr = gt.Send(ge)
				}
				if serr != nil && !lossy {
					e.Violate("C12", "send-failed", "Send(%s) failed on a lossless link: %v", ev, serr)
				}
				continue
			}
			ni--
			if !router && !lossy && nsenders == 1 && e.Choose("wl.reconnect", 10) == 0 && gw.Idle() && gw.Cur() != nil {
				// the gateway ends the connection while nothing is in flight; the client reconnects
				// and everything starts over on the new connection (numbering included)
				old := gw.Cur()
				e.Fault("disconnect-request")
				gw.Disconnect()
				e.WaitDone("group-reconnect", 5*time.Second, func() bool { return gw.Cur() != nil && gw.Cur() != old })
				s.SleepFor(5 * time.Millisecond)
			}
			// an arbitrary inbound cEMI frame
			code := []uint8{0x29, 0x29, 0x29, 0x29, 0x11, 0x2e, 0x2b, 0x10, 0x2d, 0x2f, 0x55}[e.Choose("wl.code", 11)]
			ctrl2 := uint8(e.Choose("wl.c2", 256))
			if e.Choose("wl.grp", 3) != 0 {
				ctrl2 |= 0x80
			}
			var c []byte
			if e.Choose("wl.ctl", 5) == 0 {
				c = mkLDataControl(code, uint8(e.Choose("wl.c1", 256)), ctrl2, addr16(e, "wl.src"), addr16(e, "wl.dst"), uint8(e.Choose("wl.ccmd", 4)))
				if e.Choose("wl.ctllong", 3) == 0 {
					// a control unit that announces a length and brings that many octets along (a
					// malformed one: it would read as a group telegram if its control bit were ignored)
					n := 1 + e.Choose("wl.ctln", 15)
					c[len(c)-2] = byte(n)
					c[len(c)-1] = 0x80 | uint8(e.Choose("wl.ctlbits", 4))
					c = append(c, uint8(e.Choose("wl.ctlapci", 3))<<6|uint8(e.Choose("wl.ctld0", 64)))
					for k := 1; k < n; k++ {
						c = append(c, byte(e.Choose("wl.byte", 256)))
					}
				}
			} else {
				n := []int{1, 1, 2, 15, 16, 100, 254}[e.Choose("wl.len2", 7)]
				d := make([]byte, n)
				for i := range d {
					d[i] = byte(e.Choose("wl.byte", 256))
				}
				apci := uint8(e.Choose("wl.apci", 16))
				if e.Choose("wl.apcilow", 2) == 0 {
					apci = uint8(e.Choose("wl.apci3", 4))
				}
				c = mkLData(code, uint8(e.Choose("wl.c1", 256)), ctrl2, addr16(e, "wl.src"), addr16(e, "wl.dst"), apci, d, nil)
			}
			if code == 0x2b || code == 0x10 || code == 0x2d || code == 0x2f || code == 0x55 {
				c = append([]byte{code}, c[1:]...) // raw / busmon / unsupported: arbitrary bytes after the code
			}
			if ev, ok := surfaces(c); ok {
				expIn = append(expIn, ev)
			}
			if router {
				peer.WriteToUDP(mkRoutingInd(c), group)
			} else {
				nextID++
				gw.RawOf[nextID] = c
				gw.Push(nextID)
			}
			if e.Choose("wl.gap", 3) == 0 {
				s.SleepFor(time.Duration(e.Choose("wl.gapamt", 5)) * time.Millisecond)
			}
		}
	})
	extraLeft := nsenders - 1
	for k := 1; k < nsenders; k++ {
		s.Spawn(fmt.Sprintf("sender%d", k), func() {
			for i := 0; i < 1+nsend/2; i++ {
				ev := grpEvent{Cmd: uint8(e.Choose("wl.cmd", 3)), Src: addr16(e, "wl.src"), Dst: addr16(e, "wl.dst")}
				n := []int{0, 1, 2, 14, 15, 16, 17, 100, 254}[e.Choose("wl.len", 9)]
				ev.Data = make([]byte, n)
				for j := range ev.Data {
					ev.Data[j] = byte(e.Choose("wl.byte", 256))
				}
				sent = append(sent, ev)
				ge := knx.GroupEvent{Command: knx.GroupCommand(ev.Cmd), Source: cemi.IndividualAddr(ev.Src), Destination: cemi.GroupAddr(ev.Dst), Data: append([]byte(nil), ev.Data...)}
				var serr error
				if router {
					serr = gr.Send(ge)
				} else {
					serr = gt.Send(ge)
				}
				if serr != nil && !lossy {
					e.Violate("C12", "send-failed", "Send(%s) failed on a lossless link: %v", ev, serr)
				}
			}
			extraLeft--
		})
	}
	e.WaitDone("workload", 300*time.Second, func() bool { return done && extraLeft == 0 })
	s.SleepFor(time.Second)
	stalled = false
	s.SleepFor(3 * time.Second)
	// close the underlying client: the group channel must close too
	e.Call("close", 10*time.Second, func() {
		if router {
			gr.Close()
		} else {
			gt.Close()
		}
	})
	s.SleepFor(2 * time.Second)
	simrt.Yield("end")

	// ---- oracle: outbound frames
	lbl := "udp:" + clientIP
	wantCode := uint8(0x11)
	if router {
		lbl, wantCode = routerLbl, 0x29
	}
	var frames []LDataView
	var rawFrames [][]byte
	seenRaw := map[string]bool{}
	for _, rec := range e.F.Records() {
		if rec.Kind != "send" || !strings.HasPrefix(rec.Sock, lbl) {
			continue
		}
		f := parseFrame(rec.Data)
		if !f.OK {
			continue
		}
		if (router && f.Svc == svcRoutingInd) || (!router && f.Svc == svcTunnelReq) {
			if !router && seenRaw[string(rec.Data)] {
				continue // retransmission
			}
			seenRaw[string(rec.Data)] = true
			frames = append(frames, parseLData(f.CEMI))
			rawFrames = append(rawFrames, f.CEMI)
		}
	}
	describe := func(v LDataView, raw []byte, ev grpEvent, orig grpEvent) string {
		switch {
		case !v.OK:
			return "not a well-formed L_Data frame with an application unit"
		case v.Code != wantCode:
			return fmt.Sprintf("message code %#x, expected %#x", v.Code, wantCode)
		case v.Ctrl2&0x80 == 0:
			return "destination is not flagged as a group address"
		case (v.Ctrl2>>4)&7 != 6:
			return fmt.Sprintf("hop count %d, expected 6", (v.Ctrl2>>4)&7)
		case (v.Ctrl1>>2)&3 != 3:
			return fmt.Sprintf("priority %d, expected low (3)", (v.Ctrl1>>2)&3)
		case (v.Ctrl1&0x80 != 0) != (len(orig.Data) <= 15):
			return fmt.Sprintf("standard-frame flag %v with a payload of %d bytes", v.Ctrl1&0x80 != 0, len(orig.Data))
		case v.APCI != ev.Cmd:
			return fmt.Sprintf("application code %d, expected %d", v.APCI, ev.Cmd)
		case v.Src != ev.Src || v.Dst != ev.Dst:
			return fmt.Sprintf("addresses %#04x -> %#04x, expected %#04x -> %#04x", v.Src, v.Dst, ev.Src, ev.Dst)
		case !reflect.DeepEqual(v.Data, ev.Data):
			return fmt.Sprintf("payload [%d]%x, expected [%d]%x", len(v.Data), clipBytes(v.Data), len(ev.Data), clipBytes(ev.Data))
		}
		return ""
	}
	// Every distinct frame on the wire must be the exact image of one Send (with several senders
	// the order is free, so frames and events are matched as multisets; a retransmission that
	// differs from its first transmission shows up as a frame nobody sent).
	used := make([]bool, len(sent))
	for i, v := range frames {
		found := false
		for j, ev := range sent {
			if used[j] {
				continue
			}
			if describe(v, rawFrames[i], ev.image(), ev) == "" {
				used[j], found = true, true
				break
			}
		}
		if !found {
			why := "no Send of this run matches it"
			if nsenders == 1 && !lossy && i < len(sent) {
				why = describe(v, rawFrames[i], sent[i].image(), sent[i])
				e.Violate("C12", "outbound-frame-wrong", "Send(%s) produced cEMI %x: %s", sent[i], clipBytes(rawFrames[i]), why)
			} else {
				e.Violate("C12", "outbound-frame-wrong", "cEMI %x left the client: %s (events sent: %d, distinct frames: %d)", clipBytes(rawFrames[i]), why, len(sent), len(frames))
			}
			break
		}
	}
	if !lossy && len(frames) != len(sent) {
		e.Violate("C12", "outbound-frame-count", "%d group events were sent, %d distinct L_Data frames left the client", len(sent), len(frames))
	}
	// inbound events: what must surface follows from what the client's socket read, in that order
	// (lossless, stop-and-wait: every tunnelling request read is in sequence and accepted once)
	expIn = nil
	seenReq := map[string]bool{}
	for _, rec := range e.F.Records() {
		if rec.Kind != "read" || !strings.HasPrefix(rec.Sock, lbl) {
			continue
		}
		f := parseFrame(wholeDatagram(rec))
		if !f.OK {
			continue
		}
		var c []byte
		switch {
		case router && f.Svc == svcRoutingInd:
			c = f.CEMI
		case !router && f.Svc == svcTunnelReq:
			if seenReq[string(wholeDatagram(rec))] {
				continue
			}
			seenReq[string(wholeDatagram(rec))] = true
			c = f.CEMI
		default:
			continue
		}
		if ev, ok := surfaces(c); ok {
			expIn = append(expIn, ev)
		}
	}
	n := len(gotIn)
	if len(expIn) < n {
		n = len(expIn)
	}
	for i := 0; i < n; i++ {
		if !reflect.DeepEqual(gotIn[i], expIn[i]) {
			e.Violate("C12", "inbound-event-differs", "group Inbound yielded %s at position %d, expected %s", gotIn[i], i, expIn[i])
			// C17: the same events in another order?
			if len(gotIn) == len(expIn) {
				used := make([]bool, len(expIn))
				same := true
				for _, g := range gotIn {
					found := false
					for j, x := range expIn {
						if !used[j] && reflect.DeepEqual(g, x) {
							used[j], found = true, true
							break
						}
					}
					if !found {
						same = false
						break
					}
				}
				if same {
					e.Violate("C17", "group-inbound-reordered", "the group Inbound channel yielded the accepted events in another order: position %d holds %s, accepted there was %s", i, gotIn[i], expIn[i])
				}
			}
			break
		}
	}
	for i, h := range held {
		if i < len(gotIn) && !bytes.Equal(h.Data, gotIn[i].Data) {
			e.Violate("C12", "inbound-event-changed-later", "the payload of the group event received at position %d read [%d]%x when it arrived and reads [%d]%x at the end of the run", i, len(gotIn[i].Data), clipBytes(gotIn[i].Data), len(h.Data), clipBytes(h.Data))
			break
		}
	}
	if len(gotIn) > len(expIn) {
		e.Violate("C12", "inbound-event-extra", "group Inbound yielded %d events, only %d frames qualify (L_Data.ind, group address, data unit, group read/response/write); extra: %s", len(gotIn), len(expIn), gotIn[len(expIn)])
	} else if len(gotIn) < len(expIn) {
		e.Violate("C12", "inbound-event-missing", "group Inbound yielded %d events, %d frames qualify; first missing: %s", len(gotIn), len(expIn), expIn[len(gotIn)])
	}
	if !inClosed {
		e.Violate("C12", "group-inbound-open-after-close", "the underlying client was closed but the group Inbound channel was never closed")
	}
	for _, t := range e.S.LiveLibTasks() {
		e.Violate("C12", "goroutine-leak:"+siteKey(t.SpawnSite), "library goroutine spawned at %s still alive (at %s) after Close", t.SpawnSite, t.Site)
	}
	if len(expIn) > 0 {
		e.Probe("group-events-surfaced")
	}
}
