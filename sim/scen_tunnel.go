package sim

import (
	"fmt"
	"strings"
	"time"

	"github.com/vapourismo/knx-go/knx"
	"github.com/vapourismo/knx-go/knx/cemi"
	"github.com/vapourismo/knx-go/knx/knxnet"
	"github.com/vapourismo/knx-go/knx/simnet"
	"github.com/vapourismo/knx-go/knx/simrt"
)

const (
	gwIP     = "10.0.0.1"
	clientIP = "10.0.0.2"
	gwPort   = 3671
)

// tunCfg is the swarm configuration of one tunnel run; every field is drawn from the "cfg"
// decision sub-stream so that one seed fixes it.
type tunCfg struct {
	TCP         bool
	R, T, H     time.Duration
	LocalAddr   bool
	Senders     int
	SendsEach   int
	Think       bool // senders pause between sends
	Inbound     int  // telegrams the gateway pushes to the client
	InboundGap  time.Duration
	Reader      string // ready | stalled | intermittent | absent
	Closers     int
	CloseEarly  bool // closers fire while the workload is still running
	Up, Down    simnet.Link
	TimerLate   int
	LateMax     time.Duration
	Adversary   int  // chaos frames injected
	Director    int  // epoch-level faults injected
	StaleAt     int  // >0: after this many acknowledged requests the gateway leaves stale acknowledgements on offer and replaces the connection
	Busmon      bool // bus monitor tunnel: inbound telegrams are L_Busmon.ind
	Refuse      int  // odds (permille) of the gateway refusing an in-sequence telegram with an error status
	Defaults    bool // the timing options are left at zero: the library's defaults apply (R=500ms, T=H=10s)
	SlowWrite   int  // permille of the client's writes that stall inside the call (counted as slack)
	SlowMax     time.Duration
	Sticky      int
	PCT         int
	Window      int  // gateway's outbound window (1 = stop-and-wait)
	ReuseChan   bool // the gateway hands out the same channel id again after a reconnect
	ForeignOnly bool // the adversary only emits frames for channels that are not the client's; links lossless
	WriteErr    int  // permille of the client's socket writes that fail (C10: "after the socket died")
	ReadErr     bool // the client's socket read fails at a decision-chosen instant (ICMP error): the receiver ends
	Starve      int  // permille of library goroutines held back at start
	StarveMax   time.Duration
	Stall       int
	StallMax    time.Duration
	FaultFree   bool
	MaxSteps    int
}

// SendCall is one application call of Tunnel.Send.
type SendCall struct {
	Sender int
	ID     int
	Inv    Stamp
	Ret    Stamp
	Done   bool
	Err    string
	OK     bool
}

// Delivery is one message read from Inbound().
type Delivery struct {
	ID  int
	Msg string
	At  Stamp
}

// CloseCall is one application call of Close.
type CloseCall struct {
	Inv, Ret Stamp
	Done     bool
}

// tunHist is everything the harness observed at the API of one tunnel run.
type tunHist struct {
	cfg        tunCfg
	Sends      []*SendCall
	Deliv      []Delivery
	Closes     []*CloseCall
	InboundEnd *Stamp // Inbound() observed closed
	NewErr     string
	Created    Stamp
	DrainAt    Stamp       // the instant after which the reader reads without stalling
	Settled    Stamp       // end of the settle phase (before the harness's own Close)
	lateSends  []*SendCall // Sends issued after Close returned
}

func drawLink(e *Env, pfx string, lossy bool) simnet.Link {
	l := simnet.Link{DelayMin: 200 * time.Microsecond}
	l.DelayMax = e.PickDur("cfg."+pfx+".delay", 200*time.Microsecond, 2*time.Millisecond, 8*time.Millisecond, 30*time.Millisecond)
	if !lossy {
		// fault-free: no datagram is delayed beyond the shortest resend interval
		l.DelayMax = e.PickDur("cfg."+pfx+".delay0", 200*time.Microsecond, 2*time.Millisecond)
		return l
	}
	l.DropPermille = []int{0, 0, 50, 150, 300}[e.Choose("cfg."+pfx+".drop", 5)]
	l.DupPermille = []int{0, 0, 50, 200}[e.Choose("cfg."+pfx+".dup", 4)]
	l.LatePermille = []int{0, 0, 30, 100}[e.Choose("cfg."+pfx+".late", 4)]
	return l
}

// drawTunCfg draws the configuration of a run, shaped by the property under check.
func drawTunCfg(e *Env) tunCfg {
	p := e.Spec.Prop
	var c tunCfg
	c.R = e.PickDur("cfg.R", 20*time.Millisecond, 50*time.Millisecond, 500*time.Millisecond)
	switch e.Choose("cfg.T", 4) {
	case 0:
		c.T = 20 * c.R // default ratio: timeout is a multiple of the resend interval
	case 1:
		c.T = 4 * c.R
	case 2:
		c.T = 3*c.R + c.R/2
	case 3:
		c.T = 2 * c.R
	}
	switch e.Choose("cfg.H", 4) {
	case 0:
		c.H = c.T
	case 1:
		c.H = c.T / 2
	case 2:
		c.H = 2 * c.T
	case 3:
		c.H = 3*c.T + c.T/3
	}
	c.LocalAddr = e.Choose("cfg.localaddr", 2) == 1
	c.Sticky = []int{600, 0, 850, 300}[e.Choose("cfg.sticky", 4)]
	c.PCT = []int{0, 0, 0, 0, 2, 5}[e.Choose("cfg.pct", 6)] // priority-based scheduling in a third of the runs
	c.Reader = []string{"ready", "stalled", "intermittent", "absent"}[e.Choose("cfg.reader", 4)]
	c.MaxSteps = 20000

	shape := e.Choose("cfg.shape", 10)
	c.Senders = 1 + e.Choose("cfg.senders", 4)
	c.SendsEach = 1 + e.Choose("cfg.sends", 6)
	c.Think = e.Choose("cfg.think", 2) == 1
	c.Inbound = e.Choose("cfg.inbound", 8)
	c.InboundGap = e.PickDur("cfg.ingap", 0, time.Millisecond, 30*time.Millisecond)
	lossy := shape >= 2
	c.FaultFree = shape < 2
	c.Up = drawLink(e, "up", lossy)
	c.Down = drawLink(e, "down", lossy)
	c.Up.LateExtra, c.Down.LateExtra = 3*c.R, 3*c.R
	if lossy && e.Choose("cfg.tlate", 3) == 2 {
		c.TimerLate = 100
		c.LateMax = c.R / 4
	}
	c.Window = 1
	stallOdds := 4
	if p == "C03" || p == "C09" {
		stallOdds = 6
	}
	if p == "C17" {
		stallOdds = 2 // order bugs live in windows of a few instructions: hold tasks there often
	}
	if (p == "C05" || p == "C17" || p == "C04" || p == "C10" || p == "C03" || p == "C09") && e.Choose("cfg.stall", stallOdds) == 0 {
		c.Stall = []int{3, 10, 30}[e.Choose("cfg.stallp", 3)]
		if p == "C17" {
			c.Stall = []int{10, 30, 100}[e.Choose("cfg.stallp17", 3)]
		}
		c.StallMax = e.PickDur("cfg.stallmax", time.Millisecond, 10*time.Millisecond)
	}
	if p == "C03" || p == "C09" || p == "C10" || p == "C04" {
		c.ReuseChan = e.Choose("cfg.reusechan", 4) == 0
	}
	switch p {
	case "C03":
		if shape == 9 { // wrap run: more than 256 acknowledged requests
			c.Senders = 1 + e.Choose("cfg.wsenders", 8)
			c.SendsEach = 600/c.Senders - e.Choose("cfg.wless", 40)
			c.Up.DropPermille, c.Down.DropPermille = c.Up.DropPermille/5, c.Down.DropPermille/5
			c.R, c.T = 20*time.Millisecond, 80*time.Millisecond
			c.H = 10 * time.Second
			c.Inbound = 0
			c.MaxSteps = 120000
		} else if shape >= 5 {
			c.Senders = 1 + e.Choose("cfg.senders8", 8)
			c.Adversary = 2 + e.Choose("cfg.adv", 12)
			if shape >= 7 {
				c.Director = 1 + e.Choose("cfg.dir03", 3)
			}
			if shape == 6 || shape == 8 {
				c.WriteErr = []int{0, 0, 50, 200}[e.Choose("cfg.werr03", 4)] // a request or a repetition that cannot be written
			}
			if shape == 5 && e.Choose("cfg.close03", 2) == 0 {
				// Close while Sends are waiting for their acknowledgements: they fail, none "succeeds"
				c.Closers = 1 + e.Choose("cfg.closers03", 2)
				c.CloseEarly = true
			}
		}
		c.TCP = shape == 1 && e.Choose("cfg.tcp", 2) == 1
		if (shape == 3 || shape == 4) && e.Choose("cfg.tshort", 3) == 0 {
			c.T = c.R / 2 // a response timeout below the resend interval: no repetition, Send gives up after T
			c.H = 4 * c.R
			if e.Choose("cfg.tshortlong", 2) == 0 {
				// ... the same with intervals of seconds, or with the two exactly equal
				c.R = []time.Duration{time.Second, 2 * time.Second, 3 * time.Second}[e.Choose("cfg.rlong", 3)]
				c.T = []time.Duration{c.R, c.R / 2, c.R - 100*time.Millisecond}[e.Choose("cfg.tlong", 3)]
				c.H = 4 * c.R
			}
		}
	case "C04", "C17":
		c.Senders = []int{0, 1, 1, 3}[e.Choose("cfg.senders2", 4)] // (application traffic shares the socket with the acknowledgements)
		c.Inbound = 2 + e.Choose("cfg.inbound64", 63)
		c.Window = []int{1, 2, 4, 8, 64}[e.Choose("cfg.window", 5)]
		if p == "C04" && shape >= 3 && shape != 9 {
			c.WriteErr = []int{0, 0, 50, 200}[e.Choose("cfg.werr04", 4)] // an acknowledgement that cannot be sent
		}
		if e.Choose("cfg.starve", 3) == 0 {
			c.Starve = []int{100, 300, 700}[e.Choose("cfg.starvep", 3)]
			c.StarveMax = e.PickDur("cfg.starvemax", time.Millisecond, 20*time.Millisecond, 2*time.Second)
		}
		if shape == 9 {
			c.Inbound = 300 + e.Choose("cfg.inwrap", 300)
			c.InboundGap = 0
			c.MaxSteps = 150000
			c.H = 100 * time.Second
		}
		if shape >= 4 {
			c.Adversary = 2 + e.Choose("cfg.adv", 20)
		}
		if shape >= 6 && shape != 9 {
			c.Director = 1 + e.Choose("cfg.dir", 3)
		}
		c.TCP = shape == 1 && e.Choose("cfg.tcp", 2) == 1
		if c.TCP && e.Choose("cfg.defaults04", 3) == 0 {
			// the stream rules hold whatever the timing options are - also when they are all left at
			// zero and the library fills in its defaults
			c.Defaults = true
			c.R, c.T, c.H = 500*time.Millisecond, 10*time.Second, 10*time.Second
		}
	case "C05":
		c.Senders = 1 + e.Choose("cfg.senders3", 3)
		c.SendsEach = 1 + e.Choose("cfg.sends6", 6)
		c.Inbound = e.Choose("cfg.inbound6", 7)
		if shape == 7 && e.Choose("cfg.close05", 2) == 0 {
			c.Closers, c.CloseEarly = 1, true // a Send overtaken by Close must not count as delivered to the bus
		}
		if shape >= 4 && shape <= 6 {
			c.WriteErr = []int{0, 50, 200}[e.Choose("cfg.werr05", 3)] // to the gateway a datagram that could not be written is one that was lost
		}
		if shape != 9 && e.Choose("cfg.refuse05", 3) == 0 {
			// a gateway may turn a telegram down (error status in its acknowledgement): that one is not on the bus
			c.Refuse = []int{50, 150, 400}[e.Choose("cfg.refusep", 3)]
		}
		if shape == 9 {
			c.SendsEach = 300 / c.Senders
			c.Inbound = 300
			c.InboundGap = time.Millisecond
			c.MaxSteps = 200000
			c.R, c.T = 20*time.Millisecond, 80*time.Millisecond
			c.H = 100 * time.Second
			c.Up.DropPermille, c.Down.DropPermille = c.Up.DropPermille/4, c.Down.DropPermille/4
		}
	case "C09":
		if shape == 2 || shape == 3 {
			// nothing is wrong with the live connection, but the wire is full of other connections' frames
			c.ForeignOnly = true
			c.FaultFree = true
			c.Up, c.Down = drawLink(e, "up", false), drawLink(e, "down", false)
			c.TimerLate = 0
			c.Adversary = 5 + e.Choose("cfg.advf", 30)
			c.Senders = 1 + e.Choose("cfg.senders3", 3)
			c.SendsEach = 1 + e.Choose("cfg.sends12", 12)
			c.Think = true
			if e.Choose("cfg.slowff", 2) == 0 {
				// writes that take a while (never longer than half a resend interval) are no fault of
				// the connection either: nothing may come of them
				c.SlowWrite = []int{200, 500}[e.Choose("cfg.slowffp", 2)]
				c.SlowMax = e.PickDur("cfg.slowffmax", c.R/8, c.R/4, c.R/2)
			}
			break
		}
		c.Director = 1 + e.Choose("cfg.dir5", 5)
		if shape >= 7 {
			c.WriteErr = []int{0, 30, 100}[e.Choose("cfg.werr09", 3)] // heartbeat, connect and disconnect frames that cannot be written
		}
		if e.Choose("cfg.slow09", 5) == 0 {
			// the receive loop is held up inside a write while something else wants its attention
			c.SlowWrite = []int{100, 400}[e.Choose("cfg.slowp", 2)]
			c.SlowMax = e.PickDur("cfg.slowmax", c.R/8, c.R/2, c.R)
		}
		if e.Choose("cfg.starve09", 5) == 0 {
			c.Starve = []int{100, 300}[e.Choose("cfg.starvep", 2)]
			c.StarveMax = e.PickDur("cfg.starvemax", time.Millisecond, 20*time.Millisecond)
		}
		c.Senders = e.Choose("cfg.senders3", 3)
		c.SendsEach = 1 + e.Choose("cfg.sends12", 12)
		c.Think = true
		if shape >= 6 {
			c.Adversary = 1 + e.Choose("cfg.adv", 10)
		}
	case "C10":
		c.Closers = 1 + e.Choose("cfg.closers", 4)
		c.CloseEarly = true
		if e.Choose("cfg.starve10", 4) == 0 {
			// goroutines that start late: Close meets workers that have not run their first line yet
			c.Starve = []int{100, 300, 700}[e.Choose("cfg.starvep", 3)]
			c.StarveMax = e.PickDur("cfg.starvemax", time.Millisecond, 20*time.Millisecond, 500*time.Millisecond)
		}
		if shape >= 2 {
			c.WriteErr = []int{0, 0, 0, 50, 300}[e.Choose("cfg.werr", 5)]
			c.ReadErr = e.Choose("cfg.rerr", 4) == 0
		}
		if shape >= 3 {
			c.Director = e.Choose("cfg.dir3", 3)
		}
		if shape >= 5 {
			c.Adversary = e.Choose("cfg.adv", 8)
		}
		c.TCP = shape == 1 && e.Choose("cfg.tcp", 2) == 1
	case "C12":
		c.Senders = 1
	case "C16":
		// the connect request's endpoints: every combination of transport and SendLocalAddress, a few reconnects
		c.TCP = e.Choose("cfg.tcp16", 2) == 1
		c.Director = e.Choose("cfg.dir16", 3)
		if e.Choose("cfg.defaults16", 4) == 0 {
			// zero-valued timing options: whatever the defaulting does, the other options must survive it
			c.Defaults = true
			c.R, c.T, c.H = 500*time.Millisecond, 10*time.Second, 10*time.Second
			c.Senders, c.SendsEach, c.Inbound, c.Director = 1, 2, 2, 0
		}
	}
	if (p == "C04" || p == "C05" || p == "C17") && e.Choose("cfg.busmon", 5) == 0 {
		c.Busmon = true
	}
	if total := c.Senders * c.SendsEach; total > 1 && !c.FaultFree && !c.ForeignOnly && shape != 9 && (p == "C03" || p == "C09" || p == "C10") && e.Choose("cfg.stale", 4) == 0 { // (not C05: its gateway never ends a connection on its own)
		c.StaleAt = 1 + e.Choose("cfg.staleat", min(total-1, 12))
	}
	c.Up.LateExtra, c.Down.LateExtra = 3*c.R, 3*c.R
	if c.TCP {
		c.StaleAt = 0
		c.WriteErr, c.ReadErr = 0, false
		c.Adversary, c.Director = 0, 0
		c.Up.DropPermille, c.Up.DupPermille, c.Up.LatePermille = 0, 0, 0
		c.Down = c.Up
	}
	return c
}

func (c tunCfg) String() string {
	return fmt.Sprintf("tcp=%v R=%v T=%v H=%v local=%v senders=%dx%d think=%v inbound=%d/%v reader=%s closers=%d early=%v up={drop=%d dup=%d late=%d dmax=%v} down={drop=%d dup=%d late=%d dmax=%v} tlate=%d adv=%d dir=%d foreignonly=%v sticky=%d pct=%d window=%d starve=%d/%v reusechan=%v werr=%d rerr=%v stall=%d/%v stale=%d busmon=%v slowwrite=%d/%v refuse=%d defaults=%v",
		c.TCP, c.R, c.T, c.H, c.LocalAddr, c.Senders, c.SendsEach, c.Think, c.Inbound, c.InboundGap, c.Reader, c.Closers, c.CloseEarly,
		c.Up.DropPermille, c.Up.DupPermille, c.Up.LatePermille, c.Up.DelayMax, c.Down.DropPermille, c.Down.DupPermille, c.Down.LatePermille, c.Down.DelayMax,
		c.TimerLate, c.Adversary, c.Director, c.ForeignOnly, c.Sticky, c.PCT, c.Window, c.Starve, c.StarveMax, c.ReuseChan, c.WriteErr, c.ReadErr, c.Stall, c.StallMax, c.StaleAt, c.Busmon, c.SlowWrite, c.SlowMax, c.Refuse, c.Defaults)
}

func idMessage(id int) cemi.Message {
	return &cemi.LDataReq{LData: cemi.LData{
		Control1:    0xbc,
		Control2:    0xe0,
		Source:      0x1105,
		Destination: uint16(id),
		// (the transport layer's own numbering varies with the id, its highest number included: the
		// gateway compares the whole frame with what was meant - see idReqCEMI)
		Data: &cemi.AppData{Numbered: id&1 == 1, SeqNumber: uint8(id+14) & 15, Command: cemi.GroupValueWrite, Data: []byte{0, byte(id >> 8), byte(id)}},
	}}
}

// idReqCEMI is the L_Data.req frame idMessage(id) stands for, put together octet by octet.
func idReqCEMI(id int) []byte {
	b := mkLData(0x11, 0xbc, 0xe0, 0x1105, uint16(id), 2, []byte{0, byte(id >> 8), byte(id)}, nil)
	if id&1 == 1 {
		b[9] |= 0x40 | (uint8(id+14)&15)<<2
	}
	return b
}

// msgID extracts the telegram id from a message read from Inbound (-1: not one of ours).
func msgID(m cemi.Message) int {
	var ld *cemi.LData
	switch v := m.(type) {
	case *cemi.LBusmonInd:
		return busmonID([]byte(*v))
	case cemi.LBusmonInd:
		return busmonID([]byte(v))
	case *cemi.LDataInd:
		ld = &v.LData
	case *cemi.LDataReq:
		ld = &v.LData
	case *cemi.LDataCon:
		ld = &v.LData
	default:
		return -1
	}
	app, ok := ld.Data.(*cemi.AppData)
	if !ok || len(app.Data) != 3 {
		return -1
	}
	id := int(app.Data[1])<<8 | int(app.Data[2])
	if int(ld.Destination) != id {
		return -1
	}
	return id
}

func init() {
	var cfgs = map[*Env]*tunCfg{}
	_ = cfgs
	register(&Scenario{
		Name:  "tunnel",
		Props: []string{"C03", "C04", "C05", "C09", "C10", "C17"},
		Run:   runTunnel,
	})
}

type tunRun struct {
	e           *Env
	c           tunCfg
	h           *tunHist
	gw          *Gateway
	tun         *knx.Tunnel
	stop        chan struct{} // closed to end reader
	nextID      int
	sendersLeft int
	closed      bool // harness knows Close has been called
	drain       bool
	stimLeft    int
}

const lateSender = 99

func (r *tunRun) newID() int { r.nextID++; return r.nextID }

func runTunnel(e *Env) {
	c := drawTunCfg(e)
	e.Cfg("%s", c.String())
	e.S.SetConfig(func(sc *simrt.Config) {
		sc.StickyPermille = c.Sticky
		sc.PCTDepth = c.PCT
		sc.LatePermille = c.TimerLate
		sc.LateMax = c.LateMax
		sc.StarvePermille = c.Starve
		sc.StarveMax = c.StarveMax
		sc.StallPermille = c.Stall
		sc.StallMax = c.StallMax
		if e.Spec.MaxSteps == 0 {
			sc.MaxSteps = c.MaxSteps
		}
	})
	e.F.SetLink(clientIP, gwIP, c.Up)
	e.F.SetLink(gwIP, clientIP, c.Down)
	r := &tunRun{e: e, c: c, h: &tunHist{cfg: c}, stop: make(chan struct{}), nextID: 0x100}
	if c.TCP {
		runTunnelTCP(r)
		return
	}
	// Assumption guard of C05 (enforced, not trusted): no datagram outlives 254 later exchanges.
	// Every datagram remembers how many tunnelling requests had been started when it was sent;
	// a copy that would arrive more than 200 new requests later is lost instead (a loss is
	// something the network may always do).
	{
		started := 0
		seenReq := map[string]bool{}
		atSend := map[uint64]int{}
		e.F.OnSend = func(rec *simnet.Rec) {
			if f := parseFrame(rec.Data); f.OK && f.Svc == svcTunnelReq {
				k := rec.Src + string(rec.Data)
				if !seenReq[k] {
					seenReq[k] = true
					started++
				}
			}
			atSend[rec.Seq] = started
		}
		e.F.DeliverFilter = func(rec *simnet.Rec) bool {
			if n, ok := atSend[rec.Ref]; ok && started-n > 200 {
				e.Fault("datagram-lifetime-guard")
				return false
			}
			return true
		}
	}
	r.gw = newGateway(e, gwIP, gwPort)
	r.gw.Window = c.Window
	r.gw.ReuseChannel = c.ReuseChan
	r.gw.StaleAfter = c.StaleAt
	if c.Adversary > 0 {
		r.gw.StaleExtra = 3 // forged acknowledgements belong to the adversarial profiles only (C05 relates Send results to the bus)
	}
	r.gw.Start()

	layer := knxnet.TunnelLayerData
	if c.Busmon {
		layer = knxnet.TunnelLayerBusmon
	}
	r.gw.Busmon = c.Busmon
	r.gw.RefusePermille = c.Refuse
	if (e.Spec.Prop == "C04" || e.Spec.Prop == "C05" || e.Spec.Prop == "C17") && e.Choose("cfg.biginfo", 4) == 0 {
		lens := map[int]int{}
		r.gw.InfoLen = func(id int) int {
			if n, ok := lens[id]; ok {
				return n // (repetitions of a telegram are identical)
			}
			n := []int{0, 0, 1, 100, 254, 255}[e.Choose("wl.infolen", 6)]
			lens[id] = n
			if n > 0 {
				e.Fault("telegram-with-additional-info")
			}
			return n
		}
	}
	tcfg := knx.TunnelConfig{ResendInterval: c.R, HeartbeatInterval: c.H, ResponseTimeout: c.T, SendLocalAddress: c.LocalAddr}
	if c.Defaults {
		tcfg = knx.TunnelConfig{SendLocalAddress: c.LocalAddr}
	}
	tun, err := knx.NewTunnel(fmt.Sprintf("%s:%d", gwIP, gwPort), layer, tcfg)
	r.h.Created = e.Stamp()
	if err != nil {
		r.h.NewErr = err.Error()
		e.Probe("newtunnel-failed")
		// With a lossy link the initial connect may legitimately fail; nothing else to observe.
		checkNoLibTasksLeft(e, "C10", c.T+c.R+c.StarveMax)
		return
	}
	r.tun = tun
	if c.WriteErr > 0 || c.SlowWrite > 0 {
		up := c.Up
		up.WriteErrPermille = c.WriteErr
		up.SlowWritePermille, up.SlowWriteMax, up.SlowWriteSlack = c.SlowWrite, c.SlowMax, true
		e.F.SetLink(clientIP, gwIP, up)
	}
	r.startWorkload()
	r.finish()
	checkTunnel(r)
}

func (r *tunRun) startWorkload() {
	e, c := r.e, r.c
	s := e.S
	// reader
	if c.Reader != "absent" {
		s.Spawn("reader", func() { r.reader() })
	}
	// senders
	r.sendersLeft = c.Senders
	for k := 0; k < c.Senders; k++ {
		k := k
		s.Spawn(fmt.Sprintf("sender%d", k), func() {
			for i := 0; i < c.SendsEach; i++ {
				if c.Think && e.Choose("wl.think", 3) == 0 {
					s.SleepFor(time.Duration(1+e.Choose("wl.thinkamt", 40)) * c.R / 10)
				}
				if (e.Spec.Prop == "C03" || e.Spec.Prop == "C10") && e.Choose("wl.sendbad", 30) == 0 {
					// an application error: a frame without a transport unit cannot be encoded. The caller
					// gets an error or a panic of its own making (which it survives here), never a
					// success, and the tunnel goes on working for everybody else
					func() {
						defer func() {
							if rec := recover(); rec != nil {
								if simrt.IsAbort(rec) {
									panic(rec)
								}
								e.Probe("unencodable-send-panicked")
							}
						}()
						if err := r.tun.Send(&cemi.LDataReq{}); err == nil {
							e.Violate("C03", "success-without-ack", "Send of an L_Data frame without a transport unit (nothing can have been transmitted for it) reported success")
						}
					}()
					e.Fault("send-unencodable")
				}
				r.doSend(k)
			}
			r.sendersLeft--
		})
	}
	// inbound traffic from the bus
	if c.Inbound > 0 {
		r.stimLeft++
		s.Spawn("bus", func() {
			for i := 0; i < c.Inbound; i++ {
				if c.InboundGap > 0 {
					s.SleepFor(time.Duration(e.Choose("wl.ingap", 4)) * c.InboundGap)
				} else {
					simrt.Yield("bus")
				}
				if (e.Spec.Prop == "C04" || e.Spec.Prop == "C17") && e.Choose("wl.busjunk", 8) == 0 {
					// something that is framed like a tunnelling request of this connection, with the number
					// the next telegram will carry, but whose L_Data frame breaks off: it is no request at
					// all - nothing is delivered, acknowledged or counted for it
					if cur := r.gw.Cur(); cur != nil {
						r.gw.SendRaw(mkFrame(svcTunnelReq, []byte{4, cur.Channel, cur.OutSeq, 0, 0x29, 0x00, 0xbc, 0xe0, 0x11}))
						e.Fault("undecodable-tunnelling-request")
					}
				}
				r.gw.Push(r.newID())
			}
			r.stimLeft--
		})
	}
	if c.Adversary > 0 {
		r.stimLeft++
		s.Spawn("adversary", func() { r.adversary(); r.stimLeft-- })
	}
	if c.Director > 0 {
		r.stimLeft++
		s.Spawn("director", func() { r.director(); r.stimLeft-- })
	}
	if c.ReadErr {
		s.Spawn("icmp", func() {
			s.SleepFor(time.Duration(e.Choose("flt.rerrat", 300)) * (c.T + 4*c.R) / 100)
			for _, u := range e.F.LibUDPConns() {
				u.InjectReadError(fmt.Errorf("connection refused"))
			}
		})
	}
	for j := 0; j < c.Closers; j++ {
		j := j
		s.Spawn(fmt.Sprintf("closer%d", j), func() {
			if c.CloseEarly {
				// anywhere inside the workload: the instant is a decision
				s.SleepFor(time.Duration(e.Choose("flt.closeat", 400)) * (c.T + 4*c.R) / 100)
				for n := e.Choose("flt.closeyield", 6); n > 0; n-- {
					simrt.Yield("closer")
				}
			} else {
				s.WaitUntil("closer-wait", func() bool { return r.drain })
			}
			r.doClose()
		})
	}
}

func (r *tunRun) doSend(sender int) *SendCall {
	id := r.newID()
	call := &SendCall{Sender: sender, ID: id, Inv: r.e.Stamp()}
	if sender == lateSender {
		r.h.lateSends = append(r.h.lateSends, call)
	} else {
		r.h.Sends = append(r.h.Sends, call)
	}
	err := r.tun.Send(idMessage(id))
	call.Ret = r.e.Stamp()
	call.Done = true
	call.OK = err == nil
	if err != nil {
		call.Err = err.Error()
	}
	r.e.S.Logf("send id=%d ok=%v err=%s", id, call.OK, call.Err)
	return call
}

func (r *tunRun) doClose() {
	cc := &CloseCall{Inv: r.e.Stamp()}
	r.h.Closes = append(r.h.Closes, cc)
	r.closed = true
	r.e.Fault("close-at-step")
	if len(r.h.Closes) > 1 && !r.h.Closes[0].Done {
		r.e.Fault("concurrent-close")
	}
	r.tun.Close()
	cc.Ret = r.e.Stamp()
	cc.Done = true
	// Whichever Close call returns, from that moment Inbound is closed (what is still parked is
	// gone with it) and Send fails at once.
	in := r.tun.Inbound()
	for i := 0; i < 1000; i++ {
		m, ok, got := tryRecv("post-close-probe", in)
		if !got {
			r.e.Violate("C10", "inbound-open-after-close", "a Close call returned at %v but Inbound is neither closed nor readable: a range over it would block", cc.Ret.T)
			break
		}
		if !ok {
			break
		}
		d := Delivery{ID: msgID(m), At: r.e.Stamp()}
		r.h.Deliv = append(r.h.Deliv, d)
	}
	call := r.doSend(lateSender)
	if call.Done && call.OK {
		r.e.Violate("C10", "send-ok-after-close", "Send invoked right after a Close call had returned (at %v) reported success", cc.Ret.T)
	} else if call.Done && call.Ret.T-call.Inv.T > r.e.Eps() {
		r.e.Violate("C10", "send-slow-after-close", "Send invoked right after a Close call had returned took %v to fail", call.Ret.T-call.Inv.T)
	}
}

func (r *tunRun) reader() {
	e, c := r.e, r.c
	s := e.S
	in := r.tun.Inbound()
	for {
		if !r.drain {
			switch c.Reader {
			case "stalled":
				e.Fault("reader-stall")
				s.WaitUntil("reader-stalled", func() bool { return r.drain })
			case "intermittent":
				if e.Choose("wl.rstall", 3) == 0 {
					e.Fault("reader-stall")
					s.SleepFor(time.Duration(1+e.Choose("wl.rstallamt", 30)) * c.R / 5)
				}
			}
		}
		m, ok, stopped := recvOrStop("reader", in, r.stop)
		if stopped {
			return
		}
		if !ok {
			st := e.Stamp()
			r.h.InboundEnd = &st
			return
		}
		d := Delivery{ID: msgID(m), At: e.Stamp()}
		if d.ID < 0 {
			d.Msg = dump(m)
		}
		r.h.Deliv = append(r.h.Deliv, d)
		e.S.Logf("deliver id=%d", d.ID)
	}
}

// adversary emits frames a broken or foreign device could put on the wire, from the gateway's
// own address (so they pass the socket's origin filter).
func (r *tunRun) adversary() {
	e, c := r.e, r.c
	for i := 0; i < c.Adversary; i++ {
		e.S.SleepFor(time.Duration(e.Choose("flt.advgap", 30)) * c.R / 6)
		if r.closed {
			return
		}
		ch := uint8(e.Choose("flt.advch", 256))
		own := false
		if cur := r.gw.Cur(); cur != nil && e.Choose("flt.advown", 3) != 0 && !c.ForeignOnly {
			ch, own = cur.Channel, true
		}
		if cur := r.gw.Cur(); cur != nil && !own && ch == cur.Channel {
			ch++
		}
		var seq uint8
		switch e.Choose("flt.advseqk", 4) {
		case 0:
			seq = uint8(e.Choose("flt.advseq", 256))
		case 1: // near the client's outbound counter: last acknowledged .. next
			seq = r.lastClientSeq() + uint8(e.Choose("flt.advseqd", 4)) - 1
		case 2:
			if cur := r.gw.Cur(); cur != nil {
				seq = cur.OutSeq + uint8(e.Choose("flt.advseqo", 5)) - 2
			}
		case 3:
			seq = r.lastClientSeq()
		}
		st := uint8(0)
		if e.Choose("flt.advst", 3) == 0 {
			// the status codes the library knows by name, and arbitrary others
			st = []uint8{0x24, 0x25, 0x21, 0x22, 0x23, 0x26, 0x27, 0x29, 0x01, 0x02, 0x04, 0}[e.Choose("flt.advstk", 12)]
			if st == 0 {
				st = uint8(1 + e.Choose("flt.advstv", 255))
			}
		}
		kinds := []string{"ack", "ack", "ack", "tunreq", "tunreq", "statres", "discreq-foreign", "discres-foreign", "connres", "unknown"}
		switch k := kinds[e.Choose("flt.advkind", len(kinds))]; k {
		case "ack":
			if own {
				e.Fault("adversarial-ack-own-channel")
			} else {
				e.Fault("foreign-channel")
			}
			r.gw.SendRaw(mkTunnelRes(ch, seq, st))
		case "tunreq":
			if own {
				e.Fault("adversarial-request-own-channel")
			} else {
				e.Fault("foreign-channel")
			}
			r.gw.SendRaw(mkTunnelReq(ch, seq, idCEMI(0x29, r.newID())))
		case "statres":
			if !own {
				e.Fault("foreign-channel")
				r.gw.SendRaw(mkConnStateRes(ch, st))
			}
		case "discreq-foreign":
			if !own {
				e.Fault("foreign-channel")
				r.gw.SendRaw(mkDiscReq(ch, r.gw.hpai()))
			}
		case "discres-foreign":
			if !own {
				e.Fault("foreign-channel")
				r.gw.SendRaw(mkDiscRes(ch, st))
			}
		case "connres":
			if c.ForeignOnly {
				continue
			}
			// an unsolicited connect response while connected must be ignored
			// (the channel is one no connection of this run uses: channel ids identify epochs)
			e.Fault("unsolicited-connect-response")
			r.gw.SendRaw(mkConnRes(r.gw.freshChannel(), 0, r.gw.hpai()))
		case "unknown":
			e.Fault("unknown-service")
			r.gw.SendRaw(mkFrame(0x0777, []byte{1, 2, 3}))
		}
	}
}

// lastClientSeq is the sequence number of the client's most recent tunnelling request.
func (r *tunRun) lastClientSeq() uint8 {
	recs := r.e.F.Records()
	for i := len(recs) - 1; i >= 0; i-- {
		if recs[i].Kind == "send" && strings.HasPrefix(recs[i].Sock, "udp:"+clientIP) {
			if f := parseFrame(recs[i].Data); f.OK && f.Svc == svcTunnelReq {
				return f.Seq
			}
		}
	}
	return 0
}

// director injects epoch-level faults: silence, restarts, error statuses, disconnects, busy or
// refused reconnects.
func (r *tunRun) director() {
	e, c := r.e, r.c
	g := r.gw
	for i := 0; i < c.Director; i++ {
		e.S.SleepFor(time.Duration(e.Choose("flt.dirgap", 40)) * c.H / 10)
		if r.closed {
			return
		}
		switch e.Choose("flt.dirkind", 12) {
		case 11: // acknowledgements nobody waits for (own channel, low numbers) are put on offer inside the client, then the connection is replaced
			if cur := g.Cur(); cur != nil && c.Adversary > 0 {
				e.Fault("stale-acks-then-disconnect")
				n := 1 + e.Choose("flt.stalen", 3)
				for q := 0; q < n; q++ {
					g.SendRaw(mkTunnelRes(cur.Channel, uint8(q), 0))
				}
				g.Disconnect()
			}
		case 10: // the next acknowledgement goes out twice, and the gateway ends the connection right after it
			g.DupAckThenDisc = time.Duration(1+e.Choose("flt.staledisc", 8)) * c.R / 16
		case 9: // the gateway rejects the next tunnelling request with an error status
			g.AckStatus = []uint8{0x24, 0x25, 0x21, 0x29, 0x04, uint8(1 + e.Choose("flt.ackst", 255))}[e.Choose("flt.ackstk", 6)]
			g.AckStatusOnce = true
		case 0: // silence for a while
			g.Silent = true
			e.Fault("gateway-silent")
			e.S.SleepFor(time.Duration(1+e.Choose("flt.silence", 30)) * c.T / 10)
			g.Silent = false
		case 1:
			g.Restart()
		case 2: // error status on heartbeats for a while
			g.StateStatus = uint8(1 + e.Choose("flt.ststatus", 255))
			e.S.SleepFor(time.Duration(1+e.Choose("flt.stdur", 20)) * c.H / 10)
			g.StateStatus = 0
		case 3:
			g.Disconnect()
		case 4: // next connects are answered busy a few times, then ok
			n := 1 + e.Choose("flt.busyn", 3)
			if e.Choose("flt.busyforever", 3) == 0 {
				n = 64 // the gateway stays full: every repetition of the connect request is answered "busy" until the client gives up
			}
			for j := 0; j < n; j++ {
				g.ConnScript = append(g.ConnScript, connAction{"status", uint8(0x24 + e.Choose("flt.busyk", 2))})
			}
			g.Restart()
		case 5: // reconnect refused
			g.ConnScript = append(g.ConnScript, connAction{"status", []uint8{0x22, 0x23, 0x26, 0x27, 0x29, 0x01}[e.Choose("flt.refk", 6)]})
			g.Restart()
		case 6: // reconnect unanswered for good
			for j := 0; j < 64; j++ {
				g.ConnScript = append(g.ConnScript, connAction{kind: "lost"})
			}
			g.Restart()
		case 7: // disconnect response for the live channel out of the blue
			if cur := g.Cur(); cur != nil {
				e.Fault("disconnect-response")
				ch := cur.Channel
				g.killEpoch("adversarial disconnect response")
				g.SendRaw(mkDiscRes(ch, []uint8{0, 0, 0x21, 0x26, 0xff}[e.Choose("flt.discresst", 5)])) // (whatever its status octet says, the connection is over)
			}
		case 8: // heartbeats unanswered for a while
			g.StateSilent = true
			e.S.SleepFor(time.Duration(1+e.Choose("flt.hbsil", 30)) * c.T / 10)
			g.StateSilent = false
		}
	}
}

// finish waits for the workload, lets everything settle, and closes.
func (r *tunRun) finish() {
	e, c := r.e, r.c
	s := e.S
	deadline := s.Now() + time.Duration(c.Senders*c.SendsEach+4)*(c.T+c.R) + time.Duration(c.Inbound+2)*3*time.Second + time.Duration(c.Director+c.Adversary+1)*5*(c.H+c.T)
	// Phase 1: workload done (bounded by simulated time).
	for s.Now() < deadline {
		if r.sendersLeft == 0 && r.stimLeft == 0 && (r.gw.Idle() || r.gw.Cur() == nil) {
			break
		}
		s.SleepFor(c.R)
	}
	if r.sendersLeft != 0 || r.stimLeft != 0 {
		e.Probe("workload-deadline-hit")
	}
	// Phase 2: drain. The reader now reads without stalling; give parked deliveries, pending
	// acknowledgement relays and the gateway's retries time to finish.
	r.h.DrainAt = e.Stamp()
	r.drain = true
	s.SleepFor(2*c.T + 2*c.R + 3*time.Second + 2*c.StarveMax) // (a goroutine that starts late is part of what must settle)
	r.h.Settled = e.Stamp()
	// Phase 3: close (unless a closer did) and observe the aftermath. Library calls run in their
	// own tasks with a deadline: a call that hangs is a finding, not the end of the harness.
	long := time.Duration(c.Senders*c.SendsEach+6) * (c.T + c.R) * 2
	if !r.closed {
		e.Call("final-close", long, r.doClose)
	} else {
		e.WaitDone("closers-done", long, func() bool {
			for _, cc := range r.h.Closes {
				if !cc.Done {
					return false
				}
			}
			return len(r.h.Closes) >= c.Closers
		})
	}
	// Sends after Close must fail promptly.
	closeReturned := false
	for _, cc := range r.h.Closes {
		if cc.Done {
			closeReturned = true
		}
	}
	if closeReturned {
		for i := 0; i < 2; i++ {
			e.Call("late-send", long, func() { r.doSend(lateSender) })
		}
	}
	s.SleepFor(c.T + c.R + time.Millisecond + c.StarveMax)
	closeChan("stop", r.stop)
	simrt.Yield("end")
}

// checkNoLibTasksLeft reports library tasks that are still alive.
func checkNoLibTasksLeft(e *Env, prop string, after time.Duration) {
	e.S.SleepFor(after)
	for _, t := range e.S.LiveLibTasks() {
		e.Violate(prop, "goroutine-leak:"+siteKey(t.SpawnSite), "library goroutine spawned at %s still alive (at %s) after the client was released", t.SpawnSite, t.Site)
	}
}

// siteKey strips the line number from a spawn site so that classes survive unrelated edits:
// "knx/tunnel.go:420:go" -> "knx/tunnel.go".
func siteKey(site string) string {
	if i := strings.Index(site, ":"); i >= 0 {
		rest := site[i+1:]
		if j := strings.Index(rest, ":"); j >= 0 {
			return site[:i] + rest[j:]
		}
	}
	return site
}
