package sim

import "time"

func init() {
	for _, p := range []string{"C03", "C04", "C05", "C09", "C10"} {
		plans[p] = propPlan{Scenarios: []string{"tunnel"}, QuickRuns: 4000, ThoroughDur: 10 * time.Minute}
	}
	plans["C17"] = propPlan{Scenarios: []string{"tunnel", "router", "tunnel", "router", "groups"}, QuickRuns: 4000, ThoroughDur: 10 * time.Minute}
	plans["C16"] = propPlan{Scenarios: []string{"socket", "socket", "tunnel"}, QuickRuns: 4000, ThoroughDur: 10 * time.Minute}
	plans["C01"] = propPlan{Scenarios: []string{"decoder"}, QuickRuns: 4000, ThoroughDur: 10 * time.Minute}
	plans["C20"] = propPlan{Scenarios: []string{"describe"}, QuickRuns: 4000, ThoroughDur: 10 * time.Minute}
	plans["C12"] = propPlan{Scenarios: []string{"groups"}, QuickRuns: 4000, ThoroughDur: 10 * time.Minute}
	plans["C19"] = propPlan{Scenarios: []string{"dpt"}, QuickRuns: 1500, ThoroughDur: 6 * time.Minute}
	plans["C13"] = propPlan{Scenarios: []string{"router"}, QuickRuns: 4000, ThoroughDur: 10 * time.Minute}
	plans["C14"] = propPlan{Scenarios: []string{"router"}, QuickRuns: 4000, ThoroughDur: 10 * time.Minute}
}
