package sim

import "time"

func init() {
	for _, p := range []string{"C03", "C04", "C05", "C09", "C10"} {
		plans[p] = propPlan{Scenarios: []string{"tunnel"}, QuickRuns: 4000, ThoroughDur: 10 * time.Minute}
	}
	plans["C17"] = propPlan{Scenarios: []string{"tunnel", "router"}, QuickRuns: 4000, ThoroughDur: 10 * time.Minute}
	plans["C13"] = propPlan{Scenarios: []string{"router"}, QuickRuns: 4000, ThoroughDur: 10 * time.Minute}
	plans["C14"] = propPlan{Scenarios: []string{"router"}, QuickRuns: 4000, ThoroughDur: 10 * time.Minute}
}
