package sim

import "time"

func init() {
	plans["C03"] = propPlan{Scenarios: []string{"tunnel"}, QuickRuns: 4000, ThoroughDur: 10 * time.Minute}
}
