// simgen generates instrumented copies of knx-go's sources (rewrites T1–T7 of DESIGN.md §2.1)
// from the repository's current working tree and writes a `go build -overlay` file.
//
// usage: simgen -repo /repo -out DIR -simrt /verif/overlay/simrt -simnet /verif/overlay/simnet
//
// Exit status 2 means "cannot instrument" (build trouble), never a property verdict.
package main

import (
	"encoding/json"
	"flag"
	"fmt"
	"go/ast"
	"go/build"
	"go/format"
	"go/importer"
	"go/parser"
	"go/token"
	"go/types"
	"os"
	"path/filepath"
	"sort"
	"strings"
)

func fatalf(format string, args ...interface{}) {
	fmt.Fprintf(os.Stderr, "simgen: "+format+"\n", args...)
	os.Exit(2)
}

type loader struct {
	fset    *token.FileSet
	root    string
	module  string
	pkgs    map[string]*types.Package
	infos   map[string]*types.Info
	files   map[string][]*ast.File
	std     types.Importer
	loading map[string]bool
}

func (l *loader) Import(path string) (*types.Package, error) {
	if path == "unsafe" {
		return types.Unsafe, nil
	}
	if p, ok := l.pkgs[path]; ok {
		return p, nil
	}
	if path == l.module || strings.HasPrefix(path, l.module+"/") {
		if l.loading[path] {
			return nil, fmt.Errorf("import cycle through %s", path)
		}
		l.loading[path] = true
		defer delete(l.loading, path)
		dir := filepath.Join(l.root, strings.TrimPrefix(strings.TrimPrefix(path, l.module), "/"))
		return l.loadDir(path, dir)
	}
	first := strings.SplitN(path, "/", 2)[0]
	if !strings.Contains(first, ".") {
		p, err := l.std.Import(path)
		if err == nil {
			l.pkgs[path] = p
			return p, nil
		}
	}
	// Third-party (or unloadable) package: an empty stand-in. Type errors that follow from
	// it are ignored; only package-name resolution is needed for such imports.
	name := path[strings.LastIndex(path, "/")+1:]
	p := types.NewPackage(path, name)
	p.MarkComplete()
	l.pkgs[path] = p
	return p, nil
}

func (l *loader) loadDir(path, dir string) (*types.Package, error) {
	ents, err := os.ReadDir(dir)
	if err != nil {
		return nil, err
	}
	var files []*ast.File
	for _, e := range ents {
		n := e.Name()
		if e.IsDir() || !strings.HasSuffix(n, ".go") || strings.HasSuffix(n, "_test.go") {
			continue
		}
		f, err := parser.ParseFile(l.fset, filepath.Join(dir, n), nil, parser.ParseComments|parser.SkipObjectResolution)
		if err != nil {
			return nil, err
		}
		files = append(files, f)
	}
	if len(files) == 0 {
		return nil, fmt.Errorf("no Go files in %s", dir)
	}
	info := &types.Info{
		Types:     map[ast.Expr]types.TypeAndValue{},
		Uses:      map[*ast.Ident]types.Object{},
		Defs:      map[*ast.Ident]types.Object{},
		Implicits: map[ast.Node]types.Object{},
	}
	conf := types.Config{Importer: l, Error: func(error) {}, FakeImportC: true}
	pkg, _ := conf.Check(path, l.fset, files, info)
	l.pkgs[path] = pkg
	l.infos[path] = info
	l.files[path] = files
	return pkg, nil
}

// ---------------------------------------------------------------------------------------

type edit struct {
	start, end int
	text       string
}

type gen struct {
	l       *loader
	fset    *token.FileSet
	info    *types.Info
	src     []byte
	file    *ast.File
	name    string // file base name for sites
	counter int
	edits   int
	useRT   bool
	useNet  bool
	pkgUses map[*types.PkgName]int
	pkgRepl map[*types.PkgName]int
	simrtPath, simnetPath string
	inSelectComm map[ast.Node]bool
}

func (g *gen) off(p token.Pos) int { return g.fset.Position(p).Offset }

func (g *gen) site(n ast.Node, kind string) string {
	return fmt.Sprintf("%q", fmt.Sprintf("%s:%d:%s", g.name, g.fset.Position(n.Pos()).Line, kind))
}

func (g *gen) uniq() int { g.counter++; return g.counter }

var rtRepl = map[string]map[string]string{
	"sync": {"Mutex": "Mutex", "RWMutex": "RWMutex", "Once": "Once", "WaitGroup": "WaitGroup"},
	"time": {"After": "After", "AfterFunc": "AfterFunc", "NewTimer": "NewTimer", "NewTicker": "NewTicker", "Tick": "Tick",
		"Sleep": "Sleep", "Now": "Now", "Since": "Since", "Until": "Until", "Timer": "Timer", "Ticker": "Ticker"},
	"math/rand": {"Float64": "RandFloat64", "Float32": "RandFloat32", "Intn": "RandIntn", "Int63n": "RandInt63n", "Int31n": "RandInt31n",
		"Int": "RandInt", "Int63": "RandInt63", "Int31": "RandInt31", "Uint32": "RandUint32", "Perm": "RandPerm"},
}

var netRepl = map[string]map[string]string{
	"net":                   {"DialUDP": "DialUDP", "DialTCP": "DialTCP", "ListenUDP": "ListenUDP", "UDPConn": "UDPConn", "TCPConn": "TCPConn"},
	"golang.org/x/net/ipv4": {"NewPacketConn": "NewPacketConn", "PacketConn": "PacketConn"},
}

var unsupported = map[string]map[string]bool{
	"sync": {"Cond": true, "NewCond": true},
	"net": {"Dial": true, "DialTimeout": true, "DialIP": true, "DialUnix": true, "Listen": true, "ListenTCP": true, "ListenPacket": true,
		"ListenMulticastUDP": true, "ListenIP": true, "Dialer": true, "ListenConfig": true},
	"time": {},
}

func (g *gen) pkgOf(id *ast.Ident) *types.PkgName {
	if o, ok := g.info.Uses[id].(*types.PkgName); ok {
		return o
	}
	return nil
}

func isRecv(e ast.Expr) (*ast.UnaryExpr, bool) {
	for {
		if p, ok := e.(*ast.ParenExpr); ok {
			e = p.X
			continue
		}
		break
	}
	u, ok := e.(*ast.UnaryExpr)
	if ok && u.Op == token.ARROW {
		return u, true
	}
	return nil, false
}

func (g *gen) isChan(e ast.Expr) (bool, bool) {
	tv, ok := g.info.Types[e]
	if !ok || tv.Type == nil {
		return false, false
	}
	if b, ok := tv.Type.Underlying().(*types.Basic); ok && b.Kind() == types.Invalid {
		return false, false
	}
	_, is := tv.Type.Underlying().(*types.Chan)
	return is, true
}

func (g *gen) isConst(e ast.Expr) bool {
	switch x := e.(type) {
	case *ast.BasicLit:
		return true
	case *ast.Ident:
		if x.Name == "nil" || x.Name == "true" || x.Name == "false" {
			return true
		}
	}
	if tv, ok := g.info.Types[e]; ok && tv.Value != nil {
		return true
	}
	return false
}

// special reports whether n is rewritten as a unit.
func (g *gen) special(n ast.Node) bool {
	switch x := n.(type) {
	case *ast.GoStmt, *ast.SelectStmt, *ast.SendStmt:
		return true
	case *ast.LabeledStmt:
		if r, ok := x.Stmt.(*ast.RangeStmt); ok && g.chanRange(r) {
			return true
		}
		if _, ok := x.Stmt.(*ast.SelectStmt); ok {
			fatalf("%s: labelled select statement is not supported", g.fset.Position(n.Pos()))
		}
	case *ast.RangeStmt:
		return g.chanRange(x)
	case *ast.UnaryExpr:
		return x.Op == token.ARROW
	case *ast.AssignStmt:
		if len(x.Lhs) == 2 && len(x.Rhs) == 1 {
			_, ok := isRecv(x.Rhs[0])
			return ok
		}
	case *ast.ValueSpec:
		if len(x.Names) == 2 && len(x.Values) == 1 {
			_, ok := isRecv(x.Values[0])
			return ok
		}
	case *ast.ExprStmt:
		return g.isClose(x.X) != nil
	case *ast.DeferStmt:
		return g.isClose(x.Call) != nil
	case *ast.SelectorExpr:
		if id, ok := x.X.(*ast.Ident); ok {
			if pn := g.pkgOf(id); pn != nil {
				path := pn.Imported().Path()
				if unsupported[path][x.Sel.Name] {
					fatalf("%s: %s.%s cannot be simulated", g.fset.Position(n.Pos()), path, x.Sel.Name)
				}
				if _, ok := rtRepl[path][x.Sel.Name]; ok {
					return true
				}
				if _, ok := netRepl[path][x.Sel.Name]; ok {
					return true
				}
			}
		}
	}
	return false
}

func (g *gen) isClose(e ast.Expr) *ast.CallExpr {
	c, ok := e.(*ast.CallExpr)
	if !ok || len(c.Args) != 1 {
		return nil
	}
	id, ok := c.Fun.(*ast.Ident)
	if !ok || id.Name != "close" {
		return nil
	}
	if o := g.info.Uses[id]; o != nil {
		if _, isb := o.(*types.Builtin); !isb {
			return nil
		}
	}
	return c
}

func (g *gen) chanRange(r *ast.RangeStmt) bool {
	if r.Value != nil {
		return false
	}
	is, known := g.isChan(r.X)
	if !known {
		fatalf("%s: cannot determine whether the range operand is a channel (type check failed)", g.fset.Position(r.Pos()))
	}
	return is
}

// text returns the source of n with all rewrites applied.
func (g *gen) text(n ast.Node) string {
	if n == nil {
		return ""
	}
	if g.special(n) {
		g.edits++
		return g.rewrite(n)
	}
	return g.splice(n)
}

// splice returns the source of n with rewrites applied to its descendants only.
func (g *gen) splice(n ast.Node) string {
	var eds []edit
	ast.Inspect(n, func(c ast.Node) bool {
		if c == nil || c == n {
			return true
		}
		if g.special(c) {
			g.edits++
			eds = append(eds, edit{g.off(c.Pos()), g.off(c.End()), g.rewrite(c)})
			return false
		}
		return true
	})
	start, end := g.off(n.Pos()), g.off(n.End())
	var b strings.Builder
	at := start
	for _, e := range eds {
		b.Write(g.src[at:e.start])
		b.WriteString(e.text)
		at = e.end
	}
	b.Write(g.src[at:end])
	return b.String()
}

func (g *gen) stmts(list []ast.Stmt) string {
	var b strings.Builder
	for _, s := range list {
		b.WriteString(g.text(s))
		b.WriteString("\n")
	}
	return b.String()
}

func (g *gen) rewrite(n ast.Node) string {
	switch x := n.(type) {
	case *ast.SelectorExpr:
		id := x.X.(*ast.Ident)
		pn := g.pkgOf(id)
		path := pn.Imported().Path()
		g.pkgRepl[pn]++
		if r, ok := rtRepl[path][x.Sel.Name]; ok {
			g.useRT = true
			return "simrt." + r
		}
		g.useNet = true
		return "simnet." + netRepl[path][x.Sel.Name]

	case *ast.UnaryExpr: // <-ch in an expression
		g.useRT = true
		return fmt.Sprintf("simrt.Recv(%s, %s)", g.site(n, "recv"), g.text(x.X))

	case *ast.AssignStmt: // a, ok := <-ch
		u, _ := isRecv(x.Rhs[0])
		g.useRT = true
		return fmt.Sprintf("%s, %s %s simrt.Recv2(%s, %s)", g.text(x.Lhs[0]), g.text(x.Lhs[1]), x.Tok, g.site(n, "recv"), g.text(u.X))

	case *ast.ValueSpec:
		u, _ := isRecv(x.Values[0])
		g.useRT = true
		ty := ""
		if x.Type != nil {
			ty = " " + g.text(x.Type)
		}
		return fmt.Sprintf("%s, %s%s = simrt.Recv2(%s, %s)", x.Names[0].Name, x.Names[1].Name, ty, g.site(n, "recv"), g.text(u.X))

	case *ast.SendStmt:
		g.useRT = true
		k := g.uniq()
		return fmt.Sprintf("{\n_t%d := simrt.Pre(%s)\nfunc() {\ndefer simrt.Unwind(_t%d)\nselect {\ncase %s <- %s:\ncase <-simrt.AbortCh():\nsimrt.Aborted()\n}\n}()\nsimrt.Post(_t%d)\n}",
			k, g.site(n, "send"), k, g.text(x.Chan), g.text(x.Value), k)

	case *ast.ExprStmt: // close(ch)
		c := g.isClose(x.X)
		g.useRT = true
		return fmt.Sprintf("simrt.Yield(%s)\nclose(%s)", g.site(n, "close"), g.text(c.Args[0]))

	case *ast.DeferStmt: // defer close(ch)
		c := g.isClose(x.Call)
		g.useRT = true
		return fmt.Sprintf("defer simrt.CloseChan(%s, %s)", g.site(n, "close"), g.text(c.Args[0]))

	case *ast.GoStmt:
		return g.rewriteGo(x)

	case *ast.LabeledStmt:
		return g.rewriteRange(x.Stmt.(*ast.RangeStmt), x.Label.Name)

	case *ast.RangeStmt:
		return g.rewriteRange(x, "")

	case *ast.SelectStmt:
		return g.rewriteSelect(x)
	}
	fatalf("internal: no rewrite for %T", n)
	return ""
}

func (g *gen) rewriteGo(x *ast.GoStmt) string {
	g.useRT = true
	k := g.uniq()
	call := x.Call
	site := g.site(x, "go")
	if fl, ok := call.Fun.(*ast.FuncLit); ok && len(call.Args) == 0 {
		return fmt.Sprintf("simrt.Go(%s, %s)", site, g.text(fl))
	}
	var b strings.Builder
	b.WriteString("{\n")
	fmt.Fprintf(&b, "_g%df := %s\n", k, g.text(call.Fun))
	var args []string
	for i, a := range call.Args {
		if g.isConst(a) {
			args = append(args, g.text(a))
			continue
		}
		fmt.Fprintf(&b, "_g%da%d := %s\n", k, i, g.text(a))
		args = append(args, fmt.Sprintf("_g%da%d", k, i))
	}
	ell := ""
	if call.Ellipsis.IsValid() {
		ell = "..."
	}
	fmt.Fprintf(&b, "simrt.Go(%s, func() { _g%df(%s%s) })\n}", site, k, strings.Join(args, ", "), ell)
	return b.String()
}

func (g *gen) rewriteRange(r *ast.RangeStmt, label string) string {
	g.useRT = true
	k := g.uniq()
	var b strings.Builder
	fmt.Fprintf(&b, "{\n_r%dc := %s\n", k, g.text(r.X))
	target := "_"
	if r.Key != nil {
		if r.Tok == token.DEFINE {
			if id, ok := r.Key.(*ast.Ident); ok && id.Name != "_" {
				fmt.Fprintf(&b, "var %s = simrt.Zero(_r%dc)\n", id.Name, k)
				target = id.Name
			}
		} else {
			target = g.text(r.Key)
		}
	}
	fmt.Fprintf(&b, "var _r%dk bool\n", k)
	if label != "" {
		fmt.Fprintf(&b, "%s:\n", label)
	}
	fmt.Fprintf(&b, "for {\n%s, _r%dk = simrt.Recv2(%s, _r%dc)\nif !_r%dk {\nbreak\n}\n", target, k, g.site(r, "range"), k, k)
	b.WriteString(g.stmts(r.Body.List))
	b.WriteString("}\n}")
	return b.String()
}

func (g *gen) rewriteSelect(sel *ast.SelectStmt) string {
	g.useRT = true
	k := g.uniq()
	p := fmt.Sprintf("_s%d", k)
	type cas struct {
		cc       *ast.CommClause
		isSend   bool
		ch, val  string
		recvVar  bool
		recvOk   bool
		bind     string // statement binding the received values at the top of the body
	}
	var cases []*cas
	var def *ast.CommClause
	var b strings.Builder
	fmt.Fprintf(&b, "{\n%sT := simrt.Pre(%s)\n", p, g.site(sel, "select"))
	for _, c := range sel.Body.List {
		cc := c.(*ast.CommClause)
		if cc.Comm == nil {
			def = cc
			continue
		}
		i := len(cases)
		cs := &cas{cc: cc}
		switch s := cc.Comm.(type) {
		case *ast.SendStmt:
			cs.isSend = true
			fmt.Fprintf(&b, "%sC%d := %s\n", p, i, g.text(s.Chan))
			if g.isConst(s.Value) {
				cs.val = g.text(s.Value)
			} else {
				fmt.Fprintf(&b, "%sV%d := %s\n", p, i, g.text(s.Value))
				cs.val = fmt.Sprintf("%sV%d", p, i)
			}
		case *ast.ExprStmt:
			u, ok := isRecv(s.X)
			if !ok {
				fatalf("%s: unsupported select case", g.fset.Position(cc.Pos()))
			}
			fmt.Fprintf(&b, "%sC%d := %s\n", p, i, g.text(u.X))
		case *ast.AssignStmt:
			u, ok := isRecv(s.Rhs[0])
			if !ok {
				fatalf("%s: unsupported select case", g.fset.Position(cc.Pos()))
			}
			fmt.Fprintf(&b, "%sC%d := %s\n", p, i, g.text(u.X))
			cs.recvVar = true
			fmt.Fprintf(&b, "%sR%d := simrt.Zero(%sC%d)\n_ = %sR%d\n", p, i, p, i, p, i)
			lhs := []string{g.text(s.Lhs[0])}
			rhs := []string{fmt.Sprintf("%sR%d", p, i)}
			if len(s.Lhs) == 2 {
				cs.recvOk = true
				fmt.Fprintf(&b, "var %sK%d bool\n_ = %sK%d\n", p, i, p, i)
				lhs = append(lhs, g.text(s.Lhs[1]))
				rhs = append(rhs, fmt.Sprintf("%sK%d", p, i))
			}
			cs.bind = fmt.Sprintf("%s %s %s", strings.Join(lhs, ", "), s.Tok, strings.Join(rhs, ", "))
		default:
			fatalf("%s: unsupported select case", g.fset.Position(cc.Pos()))
		}
		cs.ch = fmt.Sprintf("%sC%d", p, i)
		cases = append(cases, cs)
	}
	comm := func(i int, cs *cas) string {
		switch {
		case cs.isSend:
			return fmt.Sprintf("case %s <- %s:", cs.ch, cs.val)
		case cs.recvOk:
			return fmt.Sprintf("case %sR%d, %sK%d = <-%s:", p, i, p, i, cs.ch)
		case cs.recvVar:
			return fmt.Sprintf("case %sR%d = <-%s:", p, i, cs.ch)
		}
		return fmt.Sprintf("case <-%s:", cs.ch)
	}
	n := len(cases)
	fmt.Fprintf(&b, "%sI := -1\n", p)
	if n > 0 {
		fmt.Fprintf(&b, "%sN := simrt.SelStart(%d)\n", p, n)
		fmt.Fprintf(&b, "for %sJ := 0; %sJ < %d && %sI < 0; %sJ++ {\nswitch (%sN + %sJ) %% %d {\n", p, p, n, p, p, p, p, n)
		for i, cs := range cases {
			fmt.Fprintf(&b, "case %d:\nselect {\n%s\n%sI = %d\ndefault:\n}\n", i, comm(i, cs), p, i)
		}
		b.WriteString("}\n}\n")
	}
	if def == nil {
		fmt.Fprintf(&b, "if %sI < 0 {\nfunc() {\ndefer simrt.Unwind(%sT)\nselect {\n", p, p)
		for i, cs := range cases {
			fmt.Fprintf(&b, "%s\n%sI = %d\n", comm(i, cs), p, i)
		}
		b.WriteString("case <-simrt.AbortCh():\nsimrt.Aborted()\n}\n}()\n}\n")
	}
	fmt.Fprintf(&b, "simrt.Post(%sT)\nswitch %sI {\n", p, p)
	for i, cs := range cases {
		fmt.Fprintf(&b, "case %d:\n", i)
		if cs.bind != "" {
			b.WriteString(cs.bind + "\n")
		}
		b.WriteString(g.stmts(cs.cc.Body))
	}
	if def != nil {
		b.WriteString("default:\n")
		b.WriteString(g.stmts(def.Body))
	}
	b.WriteString("}\n}")
	return b.String()
}

// ---------------------------------------------------------------------------------------

func (g *gen) generate() (string, bool) {
	g.pkgUses = map[*types.PkgName]int{}
	g.pkgRepl = map[*types.PkgName]int{}
	ast.Inspect(g.file, func(n ast.Node) bool {
		if id, ok := n.(*ast.Ident); ok {
			if pn := g.pkgOf(id); pn != nil {
				g.pkgUses[pn]++
			}
		}
		return true
	})
	// Declarations are rewritten one by one; the import block is rebuilt.
	var body strings.Builder
	lastImportEnd := g.off(g.file.Name.End())
	for _, d := range g.file.Decls {
		if gd, ok := d.(*ast.GenDecl); ok && gd.Tok == token.IMPORT {
			lastImportEnd = g.off(gd.End())
			continue
		}
	}
	var eds []edit
	for _, d := range g.file.Decls {
		if gd, ok := d.(*ast.GenDecl); ok && gd.Tok == token.IMPORT {
			continue
		}
		eds = append(eds, edit{g.off(d.Pos()), g.off(d.End()), g.text(d)})
	}
	if g.edits == 0 {
		return "", false
	}
	// header: package clause verbatim (with its doc comment), then imports.
	body.WriteString("//go:build go1.21\n\n")
	body.WriteString("// Code generated by simgen from " + g.name + "; DO NOT EDIT.\n\n")
	fmt.Fprintf(&body, "package %s\n\n", g.file.Name.Name)
	body.WriteString("import (\n")
	for _, is := range g.file.Imports {
		var pn *types.PkgName
		if is.Name != nil {
			pn, _ = g.info.Defs[is.Name].(*types.PkgName)
		} else {
			pn, _ = g.info.Implicits[is].(*types.PkgName)
		}
		if pn != nil && g.pkgUses[pn] > 0 && g.pkgUses[pn] == g.pkgRepl[pn] {
			continue // every use was replaced
		}
		if is.Name != nil {
			fmt.Fprintf(&body, "\t%s %s\n", is.Name.Name, is.Path.Value)
		} else {
			fmt.Fprintf(&body, "\t%s\n", is.Path.Value)
		}
	}
	if g.useRT {
		fmt.Fprintf(&body, "\tsimrt %q\n", g.simrtPath)
	}
	if g.useNet {
		fmt.Fprintf(&body, "\tsimnet %q\n", g.simnetPath)
	}
	body.WriteString(")\n")
	at := lastImportEnd
	for _, e := range eds {
		body.Write(g.src[at:e.start])
		body.WriteString(e.text)
		at = e.end
	}
	body.Write(g.src[at:])
	return body.String(), true
}

func main() {
	repo := flag.String("repo", "/repo", "repository root")
	out := flag.String("out", "", "output directory")
	simrtDir := flag.String("simrt", "", "directory of the simrt package sources")
	simnetDir := flag.String("simnet", "", "directory of the simnet package sources")
	flag.Parse()
	if *out == "" || *simrtDir == "" || *simnetDir == "" {
		fatalf("usage: simgen -repo DIR -out DIR -simrt DIR -simnet DIR")
	}
	build.Default.CgoEnabled = false
	gomod, err := os.ReadFile(filepath.Join(*repo, "go.mod"))
	if err != nil {
		fatalf("%v", err)
	}
	module := ""
	for _, line := range strings.Split(string(gomod), "\n") {
		f := strings.Fields(line)
		if len(f) == 2 && f[0] == "module" {
			module = strings.Trim(f[1], `"`)
		}
	}
	if module == "" {
		fatalf("no module line in go.mod")
	}
	fset := token.NewFileSet()
	l := &loader{fset: fset, root: *repo, module: module, pkgs: map[string]*types.Package{}, infos: map[string]*types.Info{},
		files: map[string][]*ast.File{}, std: importer.ForCompiler(fset, "source", nil), loading: map[string]bool{}}

	// Every package directory below <repo>/knx.
	var pkgDirs []string
	filepath.Walk(filepath.Join(*repo, "knx"), func(p string, fi os.FileInfo, err error) error {
		if err == nil && fi.IsDir() {
			base := filepath.Base(p)
			if base == "simrt" || base == "simnet" || strings.HasPrefix(base, ".") || base == "testdata" {
				return filepath.SkipDir
			}
			pkgDirs = append(pkgDirs, p)
		}
		return nil
	})
	sort.Strings(pkgDirs)
	if err := os.MkdirAll(*out, 0o755); err != nil {
		fatalf("%v", err)
	}
	replace := map[string]string{}
	simrtPath := module + "/knx/simrt"
	simnetPath := module + "/knx/simnet"
	var generated []string
	for _, dir := range pkgDirs {
		rel, _ := filepath.Rel(*repo, dir)
		path := module + "/" + filepath.ToSlash(rel)
		if _, err := l.Import(path); err != nil {
			if strings.Contains(err.Error(), "no Go files") {
				continue
			}
			fatalf("load %s: %v", path, err)
		}
		info := l.infos[path]
		for _, f := range l.files[path] {
			fn := fset.Position(f.Pos()).Filename
			src, err := os.ReadFile(fn)
			if err != nil {
				fatalf("%v", err)
			}
			g := &gen{l: l, fset: fset, info: info, src: src, file: f, name: filepath.ToSlash(strings.TrimPrefix(fn, *repo+"/")),
				simrtPath: simrtPath, simnetPath: simnetPath}
			text, changed := g.generate()
			if !changed {
				continue
			}
			if fmtd, err := format.Source([]byte(text)); err == nil {
				text = string(fmtd)
			} else {
				os.WriteFile(filepath.Join(*out, "broken.go.txt"), []byte(text), 0o644)
				fatalf("generated code for %s does not parse: %v", g.name, err)
			}
			outName := strings.ReplaceAll(strings.TrimPrefix(fn, *repo+"/"), "/", "__")
			outPath := filepath.Join(*out, outName)
			if err := os.WriteFile(outPath, []byte(text), 0o644); err != nil {
				fatalf("%v", err)
			}
			replace[fn] = outPath
			generated = append(generated, fmt.Sprintf("%s (%d rewrites)", g.name, g.edits))
		}
	}
	for _, pair := range [][2]string{{*simrtDir, "simrt"}, {*simnetDir, "simnet"}} {
		ents, err := os.ReadDir(pair[0])
		if err != nil {
			fatalf("%v", err)
		}
		for _, e := range ents {
			if strings.HasSuffix(e.Name(), ".go") && !strings.HasSuffix(e.Name(), "_test.go") {
				abs, _ := filepath.Abs(filepath.Join(pair[0], e.Name()))
				replace[filepath.Join(*repo, "knx", pair[1], e.Name())] = abs
			}
		}
	}
	js, _ := json.MarshalIndent(map[string]interface{}{"Replace": replace}, "", "  ")
	if err := os.WriteFile(filepath.Join(*out, "overlay.json"), js, 0o644); err != nil {
		fatalf("%v", err)
	}
	fmt.Printf("simgen: instrumented %d files: %s\n", len(generated), strings.Join(generated, "; "))
}
