module simgen

go 1.26
