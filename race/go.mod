module verifrace

go 1.26

require github.com/vapourismo/knx-go v0.0.0

replace github.com/vapourismo/knx-go => /repo
