// Free-running -race mode (DESIGN.md §2.7): the baton-passing scheduler of the controlled mode
// orders every step through its own channels and would hide every data race from the detector,
// so the data-race clauses of C10 and C19 are decided here: the unmodified library, real
// goroutines, real loopback sockets, short real timers, the race detector switched on. The
// stimulus plan (who does what, in which burst) comes from VERIF_SEED; the interleaving inside a
// burst is the Go scheduler's. A race report names both accesses.
package verifrace

import (
	"bytes"
	"fmt"
	"math/rand/v2"
	"net"
	"os"
	"strconv"
	"sync"
	"testing"
	"time"

	"github.com/vapourismo/knx-go/knx"
	"github.com/vapourismo/knx-go/knx/cemi"
	"github.com/vapourismo/knx-go/knx/dpt"
	"github.com/vapourismo/knx-go/knx/knxnet"
)

func seed() uint64 {
	s, _ := strconv.ParseUint(os.Getenv("VERIF_SEED"), 10, 64)
	return s
}

func rounds(def int) int {
	if n, err := strconv.Atoi(os.Getenv("VERIF_RACE_ROUNDS")); err == nil && n > 0 {
		return n
	}
	return def
}

func frame(svc uint16, body []byte) []byte {
	b := make([]byte, 6+len(body))
	b[0], b[1], b[2], b[3] = 6, 0x10, byte(svc>>8), byte(svc)
	b[4], b[5] = byte(len(b)>>8), byte(len(b))
	copy(b[6:], body)
	return b
}

// gateway is a tiny tunnelling server on a real loopback socket.
type gateway struct {
	conn    *net.UDPConn
	lis     *net.TCPListener // TCP personality: one accepted stream, no acknowledgements
	tcp     net.Conn
	mu      sync.Mutex
	peer    *net.UDPAddr
	channel uint8
	out     uint8
	silent  bool
}

func newGateway(t *testing.T) *gateway {
	c, err := net.ListenUDP("udp4", &net.UDPAddr{IP: net.IPv4(127, 0, 0, 1)})
	if err != nil {
		t.Skipf("no loopback UDP: %v", err)
	}
	g := &gateway{conn: c, channel: 1}
	go g.serve()
	return g
}

func (g *gateway) addr() string {
	if g.lis != nil {
		return g.lis.Addr().String()
	}
	return g.conn.LocalAddr().String()
}

func (g *gateway) close() {
	if g.lis != nil {
		g.lis.Close()
		g.mu.Lock()
		if g.tcp != nil {
			g.tcp.Close()
		}
		g.mu.Unlock()
		return
	}
	g.conn.Close()
}

// write sends a frame to the client over whichever transport the gateway speaks.
func (g *gateway) write(b []byte, to *net.UDPAddr) {
	if g.lis != nil {
		g.mu.Lock()
		c := g.tcp
		g.mu.Unlock()
		if c != nil {
			c.Write(b)
		}
		return
	}
	g.conn.WriteToUDP(b, to)
}

func newTCPGateway(t *testing.T) *gateway {
	l, err := net.ListenTCP("tcp4", &net.TCPAddr{IP: net.IPv4(127, 0, 0, 1)})
	if err != nil {
		t.Skipf("no loopback TCP: %v", err)
	}
	g := &gateway{lis: l, channel: 1}
	go func() {
		c, err := l.Accept()
		if err != nil {
			return
		}
		g.mu.Lock()
		g.tcp = c
		g.peer = &net.UDPAddr{}
		g.mu.Unlock()
		var stream []byte
		buf := make([]byte, 4096)
		for {
			n, err := c.Read(buf)
			if err != nil {
				return
			}
			stream = append(stream, buf[:n]...)
			for len(stream) >= 6 {
				tl := int(stream[4])<<8 | int(stream[5])
				if tl < 6 {
					return
				}
				if len(stream) < tl {
					break
				}
				g.handle(append([]byte(nil), stream[:tl]...), nil)
				stream = stream[tl:]
			}
		}
	}()
	return g
}

func (g *gateway) serve() {
	buf := make([]byte, 2048)
	for {
		n, from, err := g.conn.ReadFromUDP(buf)
		if err != nil {
			return
		}
		g.handle(buf[:n], from)
	}
}

func (g *gateway) handle(dg []byte, from *net.UDPAddr) {
	n := len(dg)
	if n < 8 {
		return
	}
	svc := uint16(dg[2])<<8 | uint16(dg[3])
	b := dg[6:n]
	g.mu.Lock()
	if from != nil {
		g.peer = from
	}
	ch, silent := g.channel, g.silent
	g.mu.Unlock()
	if silent {
		return
	}
	switch svc {
	case 0x0205:
		g.mu.Lock()
		g.channel++
		ch = g.channel
		g.out = 0
		g.mu.Unlock()
		g.write(frame(0x0206, []byte{ch, 0, 8, 1, 127, 0, 0, 1, 0x0e, 0x57, 4, 4, 0x11, 5}), from)
	case 0x0207:
		st := byte(0)
		if b[0] != ch {
			st = 0x21
		}
		g.write(frame(0x0208, []byte{b[0], st}), from)
	case 0x0209:
		g.write(frame(0x020a, []byte{b[0], 0}), from)
	case 0x0420:
		if g.lis == nil && len(b) >= 4 && b[1] == ch {
			g.write(frame(0x0421, []byte{4, b[1], b[2], 0}), from)
		}
	}
}

func (g *gateway) push(id int) {
	g.mu.Lock()
	peer, ch, seq := g.peer, g.channel, g.out
	g.out++
	g.mu.Unlock()
	if peer == nil {
		return
	}
	c := []byte{0x29, 0, 0xbc, 0xe0, 0x11, 5, byte(id >> 8), byte(id), 3, 0, 0x80, byte(id >> 8), byte(id)}
	g.write(frame(0x0420, append([]byte{4, ch, seq, 0}, c...)), peer)
}

func (g *gateway) disconnect() {
	g.mu.Lock()
	peer, ch := g.peer, g.channel
	g.mu.Unlock()
	if peer != nil {
		g.write(frame(0x0209, []byte{ch, 0, 8, 1, 127, 0, 0, 1, 0x0e, 0x57}), peer)
	}
}

// TestRaceTunnel: Sends, inbound traffic, heartbeats, reconnects and 1..4 concurrent closers in
// one burst per round.
func TestRaceTunnel(t *testing.T) {
	rng := rand.New(rand.NewPCG(seed(), 0x10))
	for round := 0; round < rounds(60); round++ {
		useTCP := rng.IntN(4) == 0 // a quarter of the rounds run over a TCP stream (no acknowledgements, other code paths)
		var g *gateway
		if useTCP {
			g = newTCPGateway(t)
		} else {
			g = newGateway(t)
		}
		cfg := knx.TunnelConfig{ResendInterval: 2 * time.Millisecond, ResponseTimeout: 12 * time.Millisecond, HeartbeatInterval: time.Duration(3+rng.IntN(8)) * time.Millisecond, SendLocalAddress: rng.IntN(2) == 0, UseTCP: useTCP}
		tun, err := knx.NewTunnel(g.addr(), knxnet.TunnelLayerData, cfg)
		if err != nil {
			g.close()
			continue
		}
		var wg sync.WaitGroup
		stop := make(chan struct{})
		nsend := 1 + rng.IntN(4)
		for s := 0; s < nsend; s++ {
			wg.Add(1)
			go func(s int) {
				defer wg.Done()
				for i := 0; ; i++ {
					select {
					case <-stop:
						return
					default:
					}
					id := s<<8 | i&0xff
					tun.Send(&cemi.LDataReq{LData: cemi.LData{Control1: 0xbc, Control2: 0xe0, Destination: uint16(id), Data: &cemi.AppData{Command: 2, Data: []byte{1}}}})
				}
			}(s)
		}
		if rng.IntN(3) != 0 {
			wg.Add(1)
			go func() {
				defer wg.Done()
				for range tun.Inbound() {
				}
			}()
		}
		plan := rng.IntN(4)
		wg.Add(1)
		go func() { // bus traffic, disconnects, silence
			defer wg.Done()
			for i := 0; i < 40; i++ {
				select {
				case <-stop:
					return
				default:
				}
				g.push(i)
				if plan == 1 && i == 10 {
					g.disconnect()
				}
				if plan == 2 && i == 12 {
					g.mu.Lock()
					g.silent = true
					g.mu.Unlock()
				}
				if plan == 2 && i == 30 {
					g.mu.Lock()
					g.silent = false
					g.mu.Unlock()
				}
				time.Sleep(500 * time.Microsecond)
			}
		}()
		time.Sleep(time.Duration(5+rng.IntN(40)) * time.Millisecond)
		nclose := 1 + rng.IntN(4)
		var cw sync.WaitGroup
		for c := 0; c < nclose; c++ {
			cw.Add(1)
			go func() { defer cw.Done(); tun.Close() }()
		}
		cw.Wait()
		close(stop)
		wg.Wait()
		g.close()
	}
}

// TestRaceDPT: up to 16 goroutines produce and decode into their own instances at the same time.
func TestRaceDPT(t *testing.T) {
	names := dpt.ListSupportedTypes()
	for round := 0; round < rounds(40); round++ {
		var wg sync.WaitGroup
		n := 2 + int((seed()+uint64(round))%15)
		errs := make(chan string, 64)
		for k := 0; k < n; k++ {
			wg.Add(1)
			go func(k int) {
				defer wg.Done()
				rng := rand.New(rand.NewPCG(seed()+uint64(round), uint64(k)))
				for i := 0; i < 300; i++ {
					name := names[rng.IntN(len(names))]
					if i%3 == 0 {
						name = []string{"16.000", "16.001", "28.001", "9.001", "14.000"}[rng.IntN(5)]
					}
					d, ok := dpt.Produce(name)
					if !ok {
						continue
					}
					zero := d.Pack()
					payload := make([]byte, len(zero))
					for j := range payload {
						payload[j] = byte(rng.IntN(256))
					}
					if len(payload) > 1 {
						payload[0] = 0
					} else if len(payload) == 1 {
						payload[0] &= 0x3f
					}
					if name == "16.000" || name == "16.001" {
						for j := 1; j < len(payload); j++ {
							payload[j] = byte('a' + (k+j)%26)
						}
					}
					if d.Unpack(payload) != nil {
						continue
					}
					first := d.Pack()
					s1 := d.String()
					_ = dpt.ListSupportedTypes()
					if second := d.Pack(); !bytes.Equal(first, second) || d.String() != s1 {
						select {
						case errs <- fmt.Sprintf("instance of %s changed without being written: %x -> %x", name, first, second):
						default:
						}
					}
					if name == "16.000" || name == "16.001" {
						if got := d.String(); len(payload) == 15 && got != string(payload[1:]) {
							select {
							case errs <- fmt.Sprintf("instance of %s decoded %q from %q", name, got, payload[1:]):
							default:
							}
						}
					}
				}
			}(k)
		}
		wg.Wait()
		close(errs)
		for e := range errs {
			t.Errorf("INDEPENDENCE %s", e)
		}
	}
}

// TestRaceRouter: concurrent Sends (with and without a post-send pause), lost and busy
// indications, inbound traffic with a slow or absent reader, and Close - all at once, on a real
// multicast group on the loopback interface (skipped where the host cannot do that).
func TestRaceRouter(t *testing.T) {
	rng := rand.New(rand.NewPCG(seed(), 0x14))
	for round := 0; round < rounds(40); round++ {
		group := fmt.Sprintf("239.77.%d.%d:%d", 1+rng.IntN(200), 1+rng.IntN(200), 20000+rng.IntN(20000))
		cfg := knx.RouterConfig{RetainCount: uint([]int{0, 1, 3, 32}[rng.IntN(4)]), MulticastLoopbackEnabled: true}
		if rng.IntN(2) == 0 {
			cfg.PostSendPauseDuration = time.Duration(1+rng.IntN(3)) * time.Millisecond
		}
		rt, err := knx.NewRouter(group, cfg)
		if err != nil {
			t.Skipf("no multicast on this host: %v", err)
		}
		gaddr, _ := net.ResolveUDPAddr("udp4", group)
		peer, err := net.DialUDP("udp4", nil, gaddr)
		if err != nil {
			rt.Close()
			t.Skipf("cannot reach the group: %v", err)
		}
		var wg sync.WaitGroup
		stop := make(chan struct{})
		for s := 0; s < 1+rng.IntN(4); s++ {
			wg.Add(1)
			go func(s int) {
				defer wg.Done()
				for i := 0; i < 30; i++ {
					select {
					case <-stop:
						return
					default:
					}
					rt.Send(&cemi.LDataInd{LData: cemi.LData{Control1: 0xbc, Control2: 0xe0, Destination: uint16(s<<8 | i), Data: &cemi.AppData{Command: 2, Data: []byte{1}}}})
				}
			}(s)
		}
		if rng.IntN(3) != 0 {
			slow := rng.IntN(2) == 0
			wg.Add(1)
			go func() {
				defer wg.Done()
				k := 0
				for range rt.Inbound() {
					if k++; slow && k%4 == 0 {
						time.Sleep(200 * time.Microsecond)
					}
				}
			}()
		}
		wg.Add(1)
		go func() { // the other routers on the group
			defer wg.Done()
			for i := 0; i < 40; i++ {
				select {
				case <-stop:
					return
				default:
				}
				switch i % 5 {
				case 1:
					peer.Write(frame(0x0531, []byte{4, 0, 0, byte(1 + i%7)})) // routing lost
				case 3:
					peer.Write(frame(0x0532, []byte{6, 0, 0, byte(i % 20), 0, 0})) // routing busy
				default:
					c := []byte{0x29, 0, 0xbc, 0xe0, 0x11, 5, 0x20, byte(i), 3, 0, 0x80, 0x20, byte(i)}
					peer.Write(frame(0x0530, c))
				}
				time.Sleep(300 * time.Microsecond)
			}
		}()
		time.Sleep(time.Duration(3+rng.IntN(25)) * time.Millisecond)
		rt.Close()
		close(stop)
		wg.Wait()
		peer.Close()
		time.Sleep(60 * time.Millisecond) // busy timers and unlock goroutines run out
	}
}

// TestRaceDescribe: several description requests at the same time, each to its own server; every
// caller must get its own server's answer (sockets of one process share nothing).
func TestRaceDescribe(t *testing.T) {
	rng := rand.New(rand.NewPCG(seed(), 0x20))
	const n = 8
	type server struct {
		conn *net.UDPConn
		name string
	}
	var servers []server
	for i := 0; i < n; i++ {
		c, err := net.ListenUDP("udp4", &net.UDPAddr{IP: net.IPv4(127, 0, 0, 1)})
		if err != nil {
			t.Skipf("no loopback UDP: %v", err)
		}
		sv := server{c, fmt.Sprintf("server-%d", i)}
		servers = append(servers, sv)
		go func() {
			buf := make([]byte, 2048)
			for {
				k, from, err := sv.conn.ReadFromUDP(buf)
				if err != nil {
					return
				}
				if k < 8 || buf[2] != 0x02 || buf[3] != 0x03 {
					continue
				}
				name := make([]byte, 30)
				copy(name, sv.name)
				dev := append([]byte{54, 1, 0x02, 0, 0x11, 0x01, 0, 0, 1, 2, 3, 4, 5, byte(len(sv.name)), 224, 0, 23, 12, 1, 2, 3, 4, 5, 6}, name...)
				body := append(dev, 4, 2, 2, 1)
				// a longer frame of another kind first, so that a shared buffer has something to mix in
				sv.conn.WriteToUDP(frame(0x0530, append([]byte{0x29, 0, 0xbc, 0xe0, 0x11, 5, 0x20, 1, 60, 0, 0x80}, make([]byte, 60)...)), from)
				sv.conn.WriteToUDP(frame(0x0204, body), from)
			}
		}()
	}
	defer func() {
		for _, sv := range servers {
			sv.conn.Close()
		}
	}()
	for round := 0; round < rounds(40); round++ {
		var wg sync.WaitGroup
		errs := make(chan string, n)
		for i := range servers {
			if rng.IntN(5) == 0 {
				continue
			}
			wg.Add(1)
			go func(sv server) {
				defer wg.Done()
				res, err := knx.DescribeTunnel(sv.conn.LocalAddr().String(), 300*time.Millisecond)
				switch {
				case err != nil || res == nil:
					// Not judged here: this mode runs in real time on a machine that may be busy, where a
					// server goroutine can be late and the loopback can drop a datagram. Answers that
					// are missed are the business of the simulated scenario, which owns the clock.
				case res.DeviceHardware.FriendlyName != sv.name:
					errs <- fmt.Sprintf("DescribeTunnel(%s) returned the description of %q", sv.name, res.DeviceHardware.FriendlyName)
				}
			}(servers[i])
		}
		wg.Wait()
		close(errs)
		for e := range errs {
			t.Errorf("INDEPENDENCE %s", e)
		}
	}
}
