#!/bin/bash
# tools/rps.sh <bin dir> <replay> [showtrace args]: replay with a snapshot harness and pretty-print
B="$1"; f="$2"; shift 2
python3 -c "
import json,sys;r=json.load(open('$f'));print(r['config']);print(r['detail'][:600])"
VERIF_REPO=${VERIF_REPO:-/tmp/wt/clean} $B/sim.test -test.run TestVerif -verif.mode replay -verif.replay "$f" -verif.v 2>&1 | /verif/tools/showtrace.py "$@"
