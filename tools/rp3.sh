#!/bin/bash
# replay a file with /tmp/vb3/sim.test and pretty-print
f="$1"; shift
python3 -c "
import json,sys;r=json.load(open('$f'));print(r['config']);print(r['detail'][:400])"
VERIF_REPO=/tmp/wt/clean /tmp/vb3/sim.test -test.run TestVerif -verif.mode replay -verif.replay "$f" -verif.v 2>&1 | /verif/tools/showtrace.py "$@"
