#!/usr/bin/env python3
"""Pretty-print a simulator trace (stdin): decode KNXnet/IP frames in 'net' lines, drop scheduler noise.
usage: showtrace.py [-a] [regex]   (-a keeps scheduler lines)"""
import sys,re
SVC={0x0201:'SearchReq',0x0202:'SearchRes',0x0203:'DescrReq',0x0204:'DescrRes',0x0205:'ConnReq',0x0206:'ConnRes',0x0207:'ConnStateReq',0x0208:'ConnStateRes',0x0209:'DiscReq',0x020a:'DiscRes',0x0420:'TunnelReq',0x0421:'TunnelRes',0x0530:'RoutingInd',0x0531:'RoutingLost',0x0532:'RoutingBusy'}
def dec(h):
    try: b=bytes.fromhex(h)
    except Exception: return h
    if len(b)<6 or b[0]!=6 or b[1]!=0x10: return 'RAW('+h[:40]+')'
    svc=b[2]<<8|b[3]; n=SVC.get(svc,'svc%04x'%svc); p=b[6:]
    if svc in(0x0206,0x0207,0x0208,0x0209,0x020a) and len(p)>=2: return '%s{ch=%d st=%#x}'%(n,p[0],p[1])
    if svc==0x0420 and len(p)>=4:
        c=p[4:]; i=''
        if len(c)>=11: i=' id=%d'%(c[-2]<<8|c[-1])
        return '%s{ch=%d seq=%d%s}'%(n,p[1],p[2],i)
    if svc==0x0421 and len(p)>=4: return '%s{ch=%d seq=%d st=%#x}'%(n,p[1],p[2],p[3])
    if svc==0x0530:
        c=p; i=''
        if len(c)>=11: i=' id=%d'%(c[-2]<<8|c[-1])
        return '%s{%s}'%(n,i)
    if svc==0x0531 and len(p)>=4: return '%s{n=%d}'%(n,p[2]<<8|p[3])
    if svc==0x0532 and len(p)>=6: return '%s{wait=%d ctl=%d}'%(n,p[2]<<8|p[3],p[4]<<8|p[5])
    return n
keep_all='-a' in sys.argv
pat=[a for a in sys.argv[1:] if a!='-a']
pat=re.compile(pat[0]) if pat else None
for l in sys.stdin:
    l=l.rstrip('\n')
    m=re.match(r'^(\s*[\d.]+ms) net (\w+) (\S*)>(\S*) ([0-9a-f]*) ref=(\d+) sock=(\S*) ?(.*)$',l)
    if m:
        t,kind,src,dst,data,ref,sock,err=m.groups()
        if kind in('arrive',) and not keep_all: continue
        l='%s net %-6s %s>%s %s ref=%s %s'%(t,kind,src,dst,dec(data) if data else '',ref,err)
    elif not keep_all and re.search(r'ms (run T|spawn T|exit T|fire deliver|lock T|unlock by|lockwait)',l):
        continue
    if pat and not pat.search(l): continue
    print(l[:220])
