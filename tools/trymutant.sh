#!/bin/bash
# usage: trymutant.sh <patch.diff> <prop> [<prop>...]   — apply to /repo, run quick checks, undo
P="$1"; shift
cd /repo || exit 2
git reset -q --hard HEAD
if ! git apply --check "$P" 2>/dev/null; then
  if ! git apply --3way "$P" >/dev/null 2>&1 || git diff --name-only --diff-filter=U | grep -q .; then echo "PATCH DOES NOT APPLY: $P"; git reset -q --hard HEAD; exit 3; fi
  git reset -q
else
  git apply "$P"
fi
git diff --stat | tail -1
for prop in "$@"; do
  out=$(cd /verif && VERIF_MINIMISE=${VERIF_MINIMISE:-3s} ./check $prop quick 2>&1)
  rc=$?
  echo "--- $prop rc=$rc"
  echo "$out" | grep -A2 "^VIOLATION\|^KNOWN\|CHECK-ERROR\|NONDET\|WORKER-FAIL\|HARNESS" | cut -c1-330 | head -${LINES_MAX:-14}
  echo "$out" | tail -1 | cut -c1-200
done
git reset -q --hard HEAD
