#!/bin/bash
# debugging helper: replay a file with the binary in /tmp/vb2 and pretty-print the trace
B=/tmp/vb2
"$B/sim.test" -test.run TestVerif -verif.mode replay -verif.replay "$1" -verif.v 2>&1 | /verif/tools/showtrace.py "${@:2}"
