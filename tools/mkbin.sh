#!/bin/bash
# tools/mkbin.sh <patch.diff|-> <outdir>: scratch worktree of /repo (+patch) and a harness binary built against it.
# Prints the worktree path; remove it with: git -C /repo worktree remove --force <path>
P="$1"; B="$2"
export GOFLAGS=-mod=mod GOPROXY=off GOSUMDB=off GOTOOLCHAIN=local
W=$B/wt; mkdir -p $B; git -C /repo worktree remove --force $W >/dev/null 2>&1
git -C /repo worktree add -q --detach $W HEAD || exit 2
[ "$P" != "-" ] && { git -C $W apply "$P" || git -C $W apply --3way "$P" || exit 3; }
rm -rf $B/gen; /verif/build/simgen -repo $W -out $B/gen -simrt /verif/overlay/simrt -simnet /verif/overlay/simnet >/dev/null || exit 1
sed "s#=> /repo#=> $W#" /verif/sim/go.mod > $B/h.mod; cat /verif/sim/go.sum /repo/go.sum | sort -u > $B/h.sum
cd /verif/sim && go1.26.8 test -c -modfile=$B/h.mod -overlay $B/gen/overlay.json -vet=off -o $B/sim.test . && echo "VERIF_REPO=$W $B/sim.test"
