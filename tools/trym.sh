#!/bin/bash
# usage: trym.sh <patch.diff> <prop> [<prop>...] — apply to a scratch worktree of /repo (never /repo itself),
# run the quick checks against it via VERIF_REPO, remove the worktree.
P="$(readlink -f "$1")"; shift
W=/tmp/trym.$$
git -C /repo worktree add -q --detach $W HEAD || exit 2
trap 'git -C /repo worktree remove --force $W >/dev/null 2>&1; rm -rf $W' EXIT
if ! git -C $W apply "$P" 2>/dev/null; then echo "PATCH DOES NOT APPLY: $P"; exit 3; fi
git -C $W diff --stat | tail -1
for prop in "$@"; do
  out=$(cd ${VERIF_DIR:-/verif} && VERIF_OUT=/tmp/expout VERIF_REPO=$W VERIF_MINIMISE=${VERIF_MINIMISE:-3s} ./check $prop quick 2>&1); rc=$?
  echo "--- $prop rc=$rc"
  echo "$out" | grep -A2 "^VIOLATION\|CHECK-ERROR\|NONDET\|WORKER-FAIL\|HARNESS" | cut -c1-330 | head -${LINES_MAX:-14}
  echo "$out" | grep "^check \|^race-mode" | cut -c1-200
done
