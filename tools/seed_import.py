#!/usr/bin/env python3
"""seed_import.py <srcdir> <name> <property> <needs> <detected_by>  — copy a validated seeded change into /verif/seeded/<name>/"""
import sys,os,shutil,json,subprocess,glob,re
src,name,prop,needs,det=sys.argv[1:6]
check=sys.argv[6] if len(sys.argv)>6 else prop
dst='/verif/seeded/'+name
os.makedirs(dst,exist_ok=True)
for f in ['patch.diff','DEMO.txt','NOTES.txt']+[os.path.basename(x) for x in glob.glob(src+'/*_test.go')]+(['patch.original.diff'] if os.path.exists(src+'/patch.original.diff') else []):
    shutil.copy(os.path.join(src,f),os.path.join(dst,f))
out=subprocess.run(['/verif/tools/validate_mutant.sh',src],capture_output=True,text=True).stdout
res=[l for l in out.splitlines() if l.startswith('RESULT')]
head=subprocess.run(['git','-C','/repo','rev-parse','--short','HEAD'],capture_output=True,text=True).stdout.strip()
meta={
 "property":prop,
 "origin":"written by an independent sub-agent that was given only the property text and a scratch worktree; "+("patch re-targeted by hand to the repaired tree (patch.original.diff is what the agent delivered)" if os.path.exists(src+'/patch.original.diff') else "patch used as delivered"),
 "needs_to_manifest":needs,
 "validated_against_repo_commit":head,
 "validation":"tools/validate_mutant.sh in a scratch worktree of /repo: demo passes on HEAD; patch applies; `go test -vet=off -count=1 ./...` passes with the patch; demo fails with the patch",
 "validation_result":res[0] if res else out[-300:],
 "checks_run":"tools/trym.sh: patch applied to a scratch worktree of /repo (never /repo itself), VERIF_REPO=<worktree> ./check <property> quick, worktree removed",
 "detected_by":det,
}
if check!=prop:
    meta["check"]=check
    meta["check_note"]="the change breaks a clause that is decided by the check of "+check+" (see NOTES.txt / DESIGN.md section 10); the sweep runs that check"
json.dump(meta,open(dst+'/meta.json','w'),indent=1)
print(name, res[0] if res else 'NO RESULT')
