#!/bin/bash
# tools/thor_all.sh <seed> <budget> [props...]: short thorough batches of every check against a clean scratch worktree
seed=$1; budget=$2; shift 2
props="${*:-C01 C03 C04 C05 C09 C10 C12 C13 C14 C16 C17 C19 C20}"
out=/tmp/thor-$seed; mkdir -p $out
# run from a snapshot of /verif so that edits made meanwhile do not change the build between checks
# (replay files only reproduce with the harness that produced them: the snapshot stays at $out/verif)
snap=$out/verif; rm -rf $snap; mkdir -p $snap; rsync -a --exclude .git --exclude evidence --exclude replays --exclude seeded --exclude findings /verif/ $snap/
for p in $props; do
  VERIF_OUT=$out VERIF_REPO=${VERIF_REPO:-/tmp/wt/clean} VERIF_SEED=$seed VERIF_BUDGET=$budget VERIF_WORKERS=${VERIF_WORKERS:-8} timeout 3000 $snap/check $p thorough 2>&1 | grep "^check\|^VIOL\|^  class\|CHECK-ERR\|NONDET\|HARNESS\|WORKER\|KNOWN" | cut -c1-220
done
