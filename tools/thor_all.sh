#!/bin/bash
# tools/thor_all.sh <seed> <budget> [props...]: short thorough batches of every check against a clean scratch worktree
seed=$1; budget=$2; shift 2
props="${*:-C01 C03 C04 C05 C09 C10 C12 C13 C14 C16 C17 C19 C20}"
out=/tmp/thor-$seed; mkdir -p $out
for p in $props; do
  VERIF_OUT=$out VERIF_REPO=${VERIF_REPO:-/tmp/wt/clean} VERIF_SEED=$seed VERIF_BUDGET=$budget VERIF_WORKERS=${VERIF_WORKERS:-8} timeout 3000 /verif/check $p thorough 2>&1 | grep "^check\|^VIOL\|^  class\|CHECK-ERR\|NONDET\|HARNESS\|WORKER\|KNOWN" | cut -c1-220
done
