#!/bin/bash
# debugging helper: rebuild /tmp/vb2/sim.test from the current trees
export GOFLAGS=-mod=mod GOPROXY=off GOSUMDB=off GOTOOLCHAIN=local
B=/tmp/vb2; mkdir -p $B; rm -rf $B/gen
/verif/build/simgen -repo ${1:-/repo} -out $B/gen -simrt /verif/overlay/simrt -simnet /verif/overlay/simnet >/dev/null && cd /verif/sim && go1.26.8 test -c -overlay $B/gen/overlay.json -vet=off -o $B/sim.test .
