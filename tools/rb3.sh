#!/bin/bash
# rebuild /tmp/vb3/sim.test against /tmp/wt/clean (debugging helper)
export GOFLAGS=-mod=mod GOPROXY=off GOSUMDB=off GOTOOLCHAIN=local
B=/tmp/vb3; mkdir -p $B; rm -rf $B/gen
/verif/build/simgen -repo /tmp/wt/clean -out $B/gen -simrt /verif/overlay/simrt -simnet /verif/overlay/simnet >/dev/null || exit 1
sed "s#=> /repo#=> /tmp/wt/clean#" /verif/sim/go.mod > $B/h.mod; cat /verif/sim/go.sum /repo/go.sum | sort -u > $B/h.sum
cd /verif/sim && go1.26.8 test -c -modfile=$B/h.mod -overlay $B/gen/overlay.json -vet=off -o $B/sim.test .
