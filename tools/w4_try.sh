#!/bin/bash
# tools/w4_try.sh <prop>...: validate and run every delivered wave-4 change of the given properties
# the checks run from a snapshot of /verif (edits made meanwhile must not break the build half-way)
snap=/tmp/trysnap.$$; rm -rf $snap; mkdir -p $snap; rsync -a --exclude .git --exclude evidence --exclude replays --exclude seeded --exclude findings /verif/ $snap/
trap 'rm -rf $snap' EXIT
export VERIF_DIR=$snap
for p in "$@"; do
  for m in ${WOUT:-/tmp/w4out}/$p/[mM]*/; do
    m=${m%/}
    [ -f $m/patch.diff ] || continue
    echo "=== $m"
    /verif/tools/validate_mutant.sh $m
    VERIF_WORKERS=${VERIF_WORKERS:-8} LINES_MAX=6 /verif/tools/trym.sh $m/patch.diff $p 2>&1 | grep -v "^WARNING conda" | cut -c1-260
  done
done
