#!/bin/bash
# tools/w4_try.sh <prop>...: validate and run every delivered wave-4 change of the given properties
for p in "$@"; do
  for m in /tmp/w4out/$p/m*/; do
    m=${m%/}
    [ -f $m/patch.diff ] || continue
    echo "=== $m"
    /verif/tools/validate_mutant.sh $m
    VERIF_WORKERS=8 LINES_MAX=6 /verif/tools/trym.sh $m/patch.diff $p 2>&1 | grep -v "^WARNING conda" | cut -c1-260
  done
done
