#!/bin/bash
# tools/sweep_join.sh <n>: join the tables of n shards of tools/sweep_mutants.sh into seeded/RESULTS.md
n=$1
{ sed -n '1,/^|---/p' /tmp/sweep-part.0.md; for i in $(seq 0 $((n-1))); do sed -n '/^|---/,$p' /tmp/sweep-part.$i.md | tail -n +2; done | sort; } > /verif/seeded/RESULTS.md
grep -c "^| C" /verif/seeded/RESULTS.md
