#!/bin/bash
# usage: validate_mutant.sh <dir with patch.diff, *_test.go, DEMO.txt>
# Confirms in a scratch worktree: demo passes on HEAD; patch applies; suite passes with patch; demo fails with patch.
D="$1"
export GOFLAGS=-mod=mod GOPROXY=off GOSUMDB=off
W=/tmp/mv.$$
git -C /repo worktree add -q --detach $W HEAD || exit 2
trap 'git -C /repo worktree remove --force $W >/dev/null 2>&1; rm -rf $W' EXIT
demo=$(ls $D/*_test.go 2>/dev/null | head -1)
[ -z "$demo" ] && { echo "RESULT $D nodemo"; exit 0; }
run=$(grep -o -- '-run [A-Za-z0-9_|^$]*' $D/DEMO.txt | head -1 | awk '{print $2}')
pkgname=$(grep -m1 '^package ' "$demo" | awk '{print $2}' | sed 's/_test$//')
case "$pkgname" in knx) sub=knx;; knxnet) sub=knx/knxnet;; dpt) sub=knx/dpt;; cemi) sub=knx/cemi;; util) sub=knx/util;; *) sub=knx;; esac
pkg=./$sub/
[ -z "$demo" ] && { echo "RESULT $D nodemo"; exit 0; }
cp $demo $W/$sub/zz_seeded_demo_test.go
cd $W
base=$(go test -vet=off -count=1 -run "$run" $pkg 2>&1 | tail -3 | tr '\n' ' ')
case "$base" in *ok*) b=pass;; *) b="FAIL($base)";; esac
rm -f $W/$sub/zz_seeded_demo_test.go
if ! git apply $D/patch.diff 2>/dev/null; then echo "RESULT $D demo_on_head=$b patch=DOES-NOT-APPLY"; exit 0; fi
suite=$(go test -vet=off -count=1 ./... 2>&1 | grep -c "^FAIL\|^---")
if [ "$suite" != 0 ]; then suite=$(go test -vet=off -count=1 ./... 2>&1 | grep -c "^FAIL\|^---"); fi
cp $demo $W/$sub/zz_seeded_demo_test.go
mut=$(timeout 120 go test -vet=off -count=1 -run "$run" $pkg 2>&1 | tail -4 | tr '\n' ' ')
case "$mut" in *FAIL*|*panic*) m=fail;; *ok*) m="PASS(unexpected)";; *) m="?($mut)";; esac
echo "RESULT $D demo_on_head=$b patch=applies suite_fail_lines=$suite demo_with_patch=$m run=$run"
