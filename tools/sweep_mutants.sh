#!/bin/bash
# Apply every seeded change in turn, run the owning property's quick check, record what happened.
cd /verif
out=seeded/RESULTS.md
{
echo "# Seeded changes vs. checks (quick tier, VERIF_SEED=${VERIF_SEED:-1})"
echo
echo "Each change was written by an independent sub-agent from the property text alone, confirmed in a scratch worktree"
echo "(suite passes, its demonstration fails with the change and passes without), applied to /repo, checked, and undone."
echo
echo "| seeded change | property | exit | violation classes reported |"
echo "|---|---|---|---|"
for d in seeded/*/; do
  n=$(basename $d)
  [ -f $d/patch.diff ] || continue
  prop=$(python3 -c "import json;print(json.load(open('$d/meta.json'))['property'])")
  cd /repo; git reset -q --hard HEAD
  if ! git apply $OLDPWD/$d/patch.diff 2>/dev/null; then echo "| $n | $prop | patch does not apply | |"; cd /verif; continue; fi
  cd /verif
  o=$(VERIF_MINIMISE=2s timeout 1500 ./check $prop quick 2>&1); rc=$?
  cls=$(echo "$o" | grep "^  class=" | sed 's/^  class=\([^ ]*\).*/\1/' | sort -u | tr '\n' ' ')
  echo "| $n | $prop | $rc | $cls |"
  git -C /repo reset -q --hard HEAD
done
} > $out.tmp
mv $out.tmp $out
git -C /repo reset -q --hard HEAD
cat $out
