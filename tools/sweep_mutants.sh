#!/bin/bash
# Apply every seeded change in turn, run the owning property's quick check, record what happened.
cd /verif
out=seeded/RESULTS.md
# SHARD=i/n: only every n-th change, starting with the i-th (several shards may run side by side; tools/sweep_join.sh puts their tables together)
si=${SHARD%/*}; sn=${SHARD#*/}; [ -n "$SHARD" ] && out=/tmp/sweep-part.$si.md
xo=/tmp/expout${SHARD:+.$si}
idx=-1
# the checks run from a snapshot of /verif, so that edits made during the sweep do not change the build half-way
snap=/tmp/sweepsnap.$$; rm -rf $snap; mkdir -p $snap; rsync -a --exclude .git --exclude evidence --exclude replays --exclude seeded --exclude findings /verif/ $snap/
trap 'rm -rf $snap' EXIT
{
echo "# Seeded changes vs. checks (quick tier, VERIF_SEED=${VERIF_SEED:-1})"
echo
echo "Each change was written by an independent sub-agent from the property text alone, confirmed in a scratch worktree"
echo "(suite passes, its demonstration fails with the change and passes without), applied to a scratch worktree of /repo, checked there (VERIF_REPO), and removed."
echo
echo "| seeded change | written for | check run | tier | exit | failing runs kept (max 8) | violation classes reported |"
echo "|---|---|---|---|---|---|---|"
for d in seeded/*/; do
  n=$(basename $d)
  [ -f $d/patch.diff ] || continue
  idx=$((idx+1)); if [ -n "$SHARD" ] && [ $((idx % sn)) != "$si" ]; then continue; fi
  prop=$(python3 -c "import json;m=json.load(open('$d/meta.json'));print(m.get('check',m['property']))")
  own=$(python3 -c "import json;m=json.load(open('$d/meta.json'));print(m['property'])")
  W=/tmp/sweep.$$; git -C /repo worktree remove --force $W >/dev/null 2>&1; git -C /repo worktree add -q --detach $W HEAD
  if ! git -C $W apply /verif/$d/patch.diff 2>/dev/null; then echo "| $n | $own | $prop | - | patch does not apply | - | |"; git -C /repo worktree remove --force $W; continue; fi
  o=$(VERIF_OUT=$xo VERIF_REPO=$W VERIF_MINIMISE=2s timeout 1500 $snap/check $prop quick 2>&1); rc=$?
  tier=quick
  if [ $rc = 0 ]; then
    # not met in the quick tier's 4000 runs: give the thorough tier two minutes (other seed)
    o=$(VERIF_SEED=7 VERIF_BUDGET=120s VERIF_OUT=$xo VERIF_REPO=$W VERIF_MINIMISE=2s timeout 1500 $snap/check $prop thorough 2>&1); rc=$?
    tier="thorough (120 s)"
  fi
  git -C /repo worktree remove --force $W >/dev/null 2>&1
  cls=$(echo "$o" | grep "^  class=" | sed 's/^  class=\([^ ]*\).*/\1/' | sort -u | tr '\n' ' ')
  # how many of the runs met the most frequent class (reported runs are capped at 8 per class)
  nr=$(echo "$o" | grep "^  class=" | sed -n 's/.* runs=\([0-9]*\).*/\1/p' | sort -n | tail -1)
  echo "| $n | $own | $prop | $tier | $rc | ${nr:--} | $cls |"
done
} > $out.tmp
mv $out.tmp $out
[ -z "$SHARD" ] && cat $out
