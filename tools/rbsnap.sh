#!/bin/bash
# tools/rbsnap.sh <verif snapshot dir> <out dir> [repo worktree]: build the harness of a snapshot of /verif
# (replay files reproduce only with the harness that made them)
S="$1"; B="$2"; R="${3:-/tmp/wt/clean}"
export GOFLAGS=-mod=mod GOPROXY=off GOSUMDB=off GOTOOLCHAIN=local
mkdir -p $B; rm -rf $B/gen
$S/build/simgen -repo $R -out $B/gen -simrt $S/overlay/simrt -simnet $S/overlay/simnet >/dev/null || exit 1
sed "s#=> /repo#=> $R#" $S/sim/go.mod > $B/h.mod; cat $S/sim/go.sum /repo/go.sum | sort -u > $B/h.sum
cd $S/sim && go1.26.8 test -c -modfile=$B/h.mod -overlay $B/gen/overlay.json -vet=off -o $B/sim.test . && echo "VERIF_REPO=$R $B/sim.test"
