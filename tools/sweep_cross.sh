#!/bin/bash
# Cross matrix: every seeded change against every check (quick tier). Slow (about 36 x 13 runs).
cd /verif
out=seeded/CROSS.md
props=$(python3 -c "import json;print(' '.join(c['property_id'] for c in json.load(open('MANIFEST.json'))['checks']))")
{
echo "# Every seeded change against every check (quick tier, exit code: 0 silent, 1 violation, 2 check could not run)"
echo
echo "| seeded change | owner | $(echo $props | sed 's/ / | /g') |"
echo "|---|---|$(for p in $props; do echo -n '---|'; done)"
for d in seeded/*/; do
  n=$(basename $d); [ -f $d/patch.diff ] || continue
  owner=$(python3 -c "import json;print(json.load(open('$d/meta.json'))['property'])")
  W=/tmp/cross.$$; git -C /repo worktree remove --force $W >/dev/null 2>&1; git -C /repo worktree add -q --detach $W HEAD
  if ! git -C $W apply /verif/$d/patch.diff 2>/dev/null; then git -C /repo worktree remove --force $W; continue; fi
  row="| $n | $owner |"
  for p in $props; do
    VERIF_OUT=/tmp/expout VERIF_REPO=$W VERIF_MINIMISE=1s VERIF_WORKERS=${VERIF_WORKERS:-8} timeout 900 ./check $p quick >/dev/null 2>&1; rc=$?
    [ "$p" = "$owner" ] && row="$row **$rc** |" || row="$row $rc |"
  done
  echo "$row"
  git -C /repo worktree remove --force $W >/dev/null 2>&1
done
} > $out.tmp
mv $out.tmp $out
